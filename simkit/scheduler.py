"""SimScheduler -- the dask seam (DESIGN 2.2).

A `get(dsk, keys, **kw)` callable installed with `dask.config.set(scheduler=...)`.
dask's own graph construction / optimisation / fusion run for real; this class
replaces only the executor: which ready task runs next, how many run
concurrently (under the Interleaver), when intermediates are released and what
is recomputed from the graph roots are all `Choices` draws.
"""
from __future__ import annotations

import hashlib
import os
import sys
import re
import threading
from dataclasses import dataclass, field

import numpy as np

from .errors import HarnessError, InjectedCrash
from .interleave import CrashTracer, Interleaver, LineCounter, current_vthread
from .writelines import shared_write_lines

# uuid4 / md5 tokens, also the truncated remnants that dask leaves in fused key names ("...-c9c0a162d9334d1e864fa80a3f--570")
_HEX = re.compile(r"0x[0-9a-f]+|(?<![0-9a-z])[0-9a-f]{3,}(?![0-9a-z])")
_SEP = re.compile(r"-*#[-#]*")
_tls = threading.local()


def _strip(name) -> str:
    return _SEP.sub("#", _HEX.sub("#", str(name)))


def _keyparts(key):
    if isinstance(key, tuple):
        return _strip(key[0]), tuple(key[1:])
    return _strip(key), ()


_DEBUG_CANON = bool(os.environ.get("VERIF_DEBUG_CANON"))


def _array_sig(a) -> str:
    """shape, dtype and -- for exact dtypes only -- content.  Floating-point content is left out of task identities: arrays
    produced under FFTW_MEASURE / PATIENT plans (chosen by timing) differ in their last bits from process to process."""
    if a.dtype.kind in "fc":
        return f"{a.shape}{a.dtype}"
    return f"{a.shape}{a.dtype}" + hashlib.sha1(np.ascontiguousarray(a).view(np.uint8).tobytes()).hexdigest()[:12]


def literal_sig(obj, depth=12):
    """deterministic structural fingerprint of what is embedded in a task (args, kwargs, partials, small objects);
    independent of memory addresses, uuid/hash tokens and set/dict iteration order"""
    from dask._task_spec import Alias, DataNode, GraphNode, Task, TaskRef

    if obj is None or isinstance(obj, (bool, int, float, complex)):
        return repr(obj)
    if isinstance(obj, str):
        return "s:" + _strip(obj)[:80]
    if isinstance(obj, bytes):
        return "b:" + hashlib.sha1(obj).hexdigest()[:12]
    if depth <= 0:
        return type(obj).__name__
    if isinstance(obj, np.ndarray):
        if obj.dtype == object:
            return "O[" + ",".join(literal_sig(x, depth - 1) for x in obj.ravel()[:16]) + "]"
        return "nd:" + _array_sig(obj)
    if isinstance(obj, np.generic):
        return repr(obj.item())
    if isinstance(obj, TaskRef):
        return "ref:" + _strip(obj.key if not isinstance(obj.key, tuple) else obj.key[0]) + (str(obj.key[1:]) if isinstance(obj.key, tuple) else "")
    if isinstance(obj, Alias):
        return "alias"
    if isinstance(obj, DataNode):
        return "data:" + literal_sig(obj.value, depth - 1)
    if isinstance(obj, Task):
        f = obj.func
        if getattr(f, "__name__", "") == "_execute_subgraph" and len(obj.args) >= 3:
            # fused tasks: dask orders the in-keys / dependencies by set iteration
            inner, outkey, inkeys, *dd = obj.args
            return ("sub:" + literal_sig(inner, depth - 1) + literal_sig(outkey, 2) + "<"
                    + ",".join(sorted(literal_sig(x, 2) for x in inkeys)) + "><"
                    + ",".join(sorted(literal_sig(x, 2) for x in dd)) + ">")
        return ("task:" + getattr(f, "__name__", type(f).__name__) + "(" + literal_sig(obj.args, depth - 1) + ";"
                + literal_sig(obj.kwargs, depth - 1) + ")")
    if isinstance(obj, (list, tuple)):
        return "[" + ",".join(literal_sig(x, depth - 1) for x in obj[:64]) + "]"
    if isinstance(obj, (set, frozenset)):
        return "{" + ",".join(sorted(literal_sig(x, depth - 1) for x in obj)) + "}"
    if isinstance(obj, dict):
        items = sorted((literal_sig(k, 1), literal_sig(v, depth - 1)) for k, v in obj.items())
        return "{" + ",".join(k + ":" + v for k, v in items[:64]) + "}"
    import functools

    if isinstance(obj, functools.partial):
        return "partial:" + getattr(obj.func, "__name__", "?") + literal_sig(obj.args, depth - 1) + literal_sig(obj.keywords, depth - 1)
    if callable(obj) and hasattr(obj, "__name__"):
        return "fn:" + obj.__name__
    d = getattr(obj, "__dict__", None)
    if isinstance(d, dict) and not isinstance(obj, type):
        return type(obj).__name__ + literal_sig(d, depth - 1)
    return type(obj).__name__


def embedded_instances(node, depth=9, cap=20000) -> dict:
    """{id: object} of the class instances (objects with a __dict__) reachable from what is embedded in a task: arguments,
    keyword arguments, partials, fused sub-graphs, object arrays"""
    import functools

    from dask._task_spec import DataNode, Task

    out: dict = {}
    seen: set = set()
    stack = [(node, depth)]
    while stack and len(seen) < cap:
        o, d = stack.pop()
        if o is None or isinstance(o, (bool, int, float, complex, str, bytes, type)) or id(o) in seen:
            continue
        seen.add(id(o))
        if d <= 0:
            continue
        if isinstance(o, Task):
            stack.extend((x, d - 1) for x in (o.func, o.args, o.kwargs))
        elif isinstance(o, DataNode):
            stack.append((o.value, d - 1))
        elif isinstance(o, functools.partial):
            stack.extend((x, d - 1) for x in (o.func, o.args, o.keywords))
        elif isinstance(o, (list, tuple, set, frozenset)):
            stack.extend((x, d - 1) for x in o)
        elif isinstance(o, dict):
            stack.extend((x, d - 1) for x in o.values())
        elif isinstance(o, np.ndarray):
            if o.dtype == object and o.size <= 256:
                stack.extend((x, d - 1) for x in o.ravel())
        else:
            dd = getattr(o, "__dict__", None)
            if isinstance(dd, dict) and not callable(o):
                out[id(o)] = o
                stack.extend((x, d - 1) for x in dd.values())
    return out


def shared_instances(g) -> dict:
    """instances embedded in at least two tasks of the graph: what concurrently running blocks really share"""
    count: dict = {}
    objs: dict = {}
    for k, node in g.items():
        try:
            emb = embedded_instances(node)
        except Exception:  # noqa: BLE001 - best effort
            continue
        for i, o in emb.items():
            count[i] = count.get(i, 0) + 1
            objs[i] = o
    return {i: objs[i] for i, c in count.items() if c >= 2}


def fingerprint(obj, depth=3) -> str:
    """content hash of the ndarrays reachable from obj (for the input-immutability monitor)"""
    h = hashlib.sha1()

    def walk(o, d):
        if isinstance(o, np.ndarray):
            if o.dtype == object:
                h.update(b"O")
                if d > 0:
                    for x in o.ravel():
                        walk(x, d - 1)
            else:
                h.update(str(o.shape).encode())
                h.update(np.ascontiguousarray(o).view(np.uint8).tobytes() if o.size else b"")
        elif isinstance(o, (list, tuple)):
            for x in o:
                walk(x, d)
        elif isinstance(o, dict):
            for k in o:
                walk(o[k], d)
        elif d > 0 and hasattr(o, "__dict__") and not isinstance(o, type):
            for k, v in vars(o).items():
                walk(v, d - 1)

    walk(obj, depth)
    return h.hexdigest()


@dataclass
class SimConfig:
    workers: int = 1
    reorder: bool = True
    release: bool = True
    recompute_p: float = 0.0
    max_recompute: int = 2
    monitor_inputs: bool = False
    dup_p: float = 0.0          # probe: re-run a finished task on the same inputs, compare
    crash_p: float = 0.0        # probe: crash a task at an arbitrary abTEM line, retry it
    qlo: int = 1
    qhi: int = 60
    whi: int = 0                # > 0: write-directed pre-emption, a quantum also ends at the k-th shared-write boundary, k = WQ[0..whi)
    park_global: bool = False   # park targets are stores into module-level objects only
    park_shared: bool = False   # park targets are stores whose `self` is an instance embedded in >= 2 tasks of the graph (or global)
    park_at: int | None = None  # delay one task at one store: index of the store boundary (see Interleaver.park_at)
    qlog: bool = False          # quanta drawn log-uniformly from 1, 2, 4 .. <= qhi instead of uniformly from qlo..qhi
    step_cap: int = 4000
    trace_root: str = "/repo/abtem/"

    def describe(self):
        return {k: getattr(self, k) for k in ("workers", "reorder", "release", "recompute_p", "monitor_inputs",
                                              "dup_p", "crash_p", "qlo", "qhi", "whi", "qlog", "park_at", "park_global", "park_shared")}


@dataclass
class SimStats:
    computes: int = 0
    tasks: int = 0
    max_ready: int = 0
    choice_points: int = 0
    nonfirst_picks: int = 0
    switches: int = 0
    write_preemptions: int = 0
    holds: int = 0
    parks: int = 0
    shared_instances: int = 0
    park_candidates: int = 0     # store boundaries (before + after) the busiest task offered as park targets
    concurrent_max: int = 0
    recomputes: int = 0
    recomputed_tasks: int = 0
    released: int = 0
    input_mutations: int = 0
    mutated_by: list = field(default_factory=list)
    dup_runs: int = 0
    dup_mismatch: int = 0
    crashes: int = 0
    crash_retry_mismatch: int = 0
    ties: int = 0
    nested: int = 0

    def as_dict(self):
        d = dict(self.__dict__)
        d["mutated_by"] = sorted(set(self.mutated_by))[:8]
        return d


class SimScheduler:
    def __init__(self, ch, cfg: SimConfig | None = None):
        self.ch = ch
        self.cfg = cfg or SimConfig()
        self.stats = SimStats()
        self.log: list = []
        self.order: list[str] = []
        self._recomputes_left = self.cfg.max_recompute

    # ---- graph intake ------------------------------------------------------
    @staticmethod
    def _intake(dsk):
        from dask._task_spec import convert_legacy_graph

        g = dsk.__dask_graph__() if hasattr(dsk, "__dask_graph__") else dsk
        return convert_legacy_graph(dict(g))

    def _canonical(self, g):
        """Merkle ids independent of uuid / hash-seed tokens in key names"""
        from dask._task_spec import Alias, DataNode, Task

        order = list(g)
        deps = {k: [d for d in g[k].dependencies if d in g] for k in order}
        missing = {k: [d for d in g[k].dependencies if d not in g] for k in order}
        for k, m in missing.items():
            if m:
                raise HarnessError(f"graph has dangling dependencies {m!r} of {k!r}")
        cid: dict = {}
        # iterative topological pass
        indeg = {k: len(deps[k]) for k in order}
        dependents: dict = {k: [] for k in order}
        for k in order:
            for d in deps[k]:
                dependents[d].append(k)
        stack = [k for k in order if indeg[k] == 0]
        topo = []
        while stack:
            k = stack.pop()
            topo.append(k)
            for c in dependents[k]:
                indeg[c] -= 1
                if indeg[c] == 0:
                    stack.append(c)
        if len(topo) != len(order):
            raise HarnessError("cycle in task graph")
        base = {}
        for k in topo:
            node = g[k]
            name, idx = _keyparts(k)
            extra = ""
            if isinstance(node, DataNode):
                v = node.value
                if isinstance(v, np.ndarray) and v.dtype != object:
                    extra = _array_sig(v)
                else:
                    try:
                        extra = literal_sig(v, 8)[:2000]
                    except Exception:  # noqa: BLE001
                        extra = type(v).__name__
            elif isinstance(node, Task):
                try:
                    extra = hashlib.sha1(literal_sig(node).encode()).hexdigest()[:12]
                except Exception:  # noqa: BLE001 - fingerprinting is best effort
                    extra = "?"
            base[k] = repr((name, idx, type(node).__name__, extra))
            if _DEBUG_CANON:
                print("CANON", base[k], (literal_sig(node) if isinstance(node, Task) else "")[:6000], file=sys.stderr)
        # colour refinement (Weisfeiler-Lehman) over dependencies *and* dependents until the partition is stable:
        # tasks that keep the same colour are interchangeable (automorphic for all practical purposes)
        col = {k: hashlib.sha1(base[k].encode()).hexdigest()[:16] for k in topo}
        nclasses = len(set(col.values()))
        for _ in range(64):
            new = {}
            for k in topo:
                new[k] = hashlib.sha1((col[k] + "<" + "|".join(sorted(col[d] for d in deps[k])) + ">"
                                       + "|".join(sorted(col[c] for c in dependents[k]))).encode()).hexdigest()[:16]
            col = new
            n2 = len(set(col.values()))
            if n2 == nclasses:
                break
            nclasses = n2
        cid.update(col)
        # make unique: among equal ids rank by the (already unique) ids of the dependencies, then by insertion order;
        # what is still tied after that is symmetric in both directions and interchangeable
        pos = {k: i for i, k in enumerate(order)}
        groups: dict = {}
        uid = {}
        depth = {}
        for k in topo:
            depth[k] = 1 + max((depth[d] for d in deps[k]), default=-1)
        for k in sorted(topo, key=lambda k: depth[k]):
            groups.setdefault(cid[k], []).append(k)
        for c, members in groups.items():
            pass
        done_groups = set()
        for k in sorted(topo, key=lambda k: depth[k]):
            c = cid[k]
            if c in done_groups:
                continue
            done_groups.add(c)
            members = groups[c]
            members.sort(key=lambda m: (sorted(uid[d] for d in deps[m]), pos[m]))
            for n, m in enumerate(members):
                if n:
                    self.stats.ties += 1
                name, idx = _keyparts(m)
                uid[m] = f"{name}{list(idx) if idx else ''}~{c[:8]}" + (f"#{n}" if n else "")
        return uid, deps, dependents

    # ---- entry point -------------------------------------------------------
    def __call__(self, dsk, keys, **kwargs):
        depth = getattr(_tls, "depth", 0)
        _tls.depth = depth + 1
        try:
            self.stats.computes += 1
            if depth or current_vthread() is not None:
                self.stats.nested += 1
            g = self._intake(dsk)
            flat = []

            def fl(x):
                if isinstance(x, list):
                    for y in x:
                        fl(y)
                else:
                    flat.append(x)

            fl(keys)
            nested = depth > 0 or current_vthread() is not None
            cache = self._execute(g, set(flat), workers=1 if nested else self.cfg.workers)

            def pack(x):
                if isinstance(x, list):
                    return [pack(y) for y in x]
                return cache[x]

            return pack(keys)
        finally:
            _tls.depth = depth

    # ---- execution ---------------------------------------------------------
    def _run_node(self, node, cache):
        return node({d: cache[d] for d in node.dependencies})

    def _lineage(self, g, deps, key):
        out, stack = [], [key]
        seen = set()
        while stack:
            k = stack.pop()
            if k in seen:
                continue
            seen.add(k)
            out.append(k)
            stack.extend(deps[k])
        return seen

    def _recompute(self, g, uid, deps, key):
        """rebuild `key` from the graph roots (what a second compute / inlining / culling does)"""
        anc = self._lineage(g, deps, key)
        local: dict = {}
        todo = sorted(anc, key=lambda k: uid[k])
        # deterministic topological order within the lineage
        done = set()
        progress = True
        while len(done) < len(todo) and progress:
            progress = False
            for k in todo:
                if k in done or any(d not in done for d in deps[k]):
                    continue
                local[k] = g[k]({d: local[d] for d in g[k].dependencies})
                done.add(k)
                progress = True
                self.stats.recomputed_tasks += 1
        self.stats.recomputes += 1
        self.log.append(("recompute", uid[key], len(anc)))
        return local[key]

    def _execute(self, g, outputs, workers):
        from dask._task_spec import Alias, DataNode

        cfg, ch, st = self.cfg, self.ch, self.stats
        uid, deps, dependents = self._canonical(g)
        waiting = {k: len(set(deps[k])) for k in g}
        refs = {k: len(set(dependents[k])) for k in g}
        cache: dict = {}
        ready: list = []
        trivial: list = [k for k in g if waiting[k] == 0]

        shared_live = None
        if workers > 1 and cfg.park_at is not None and cfg.park_shared:
            # instances held by >= 2 tasks: embedded in two tasks, or part of a result that two tasks consume
            shared_live = shared_instances(g)

        def finish(k, value):
            cache[k] = value
            if shared_live is not None and len(set(dependents[k])) >= 2:
                try:
                    shared_live.update(embedded_instances(value, depth=7))
                except Exception:  # noqa: BLE001 - best effort
                    pass
                st.shared_instances = max(st.shared_instances, len(shared_live))
            for c in set(dependents[k]):
                waiting[c] -= 1
                if waiting[c] == 0:
                    trivial.append(c)
            if cfg.release:
                for d in set(deps[k]):
                    refs[d] -= 1
                    if refs[d] == 0 and d not in outputs:
                        cache.pop(d, None)
                        st.released += 1

        def drain():
            # DataNodes / Aliases carry no work: resolve them without a scheduling choice
            while trivial:
                k = trivial.pop()
                node = g[k]
                if isinstance(node, (DataNode, Alias)):
                    finish(k, self._run_node(node, cache))
                else:
                    ready.append(k)

        def pick():
            ready.sort(key=lambda k: uid[k])
            st.max_ready = max(st.max_ready, len(ready))
            if len(ready) > 1:
                st.choice_points += 1
            i = ch.int(len(ready), "task") if (cfg.reorder and len(ready) > 1) else 0
            if i:
                st.nonfirst_picks += 1
            return ready.pop(i)

        def pre(k):
            """verdict-bearing perturbations applied before a task runs"""
            if cfg.recompute_p > 0 and self._recomputes_left > 0:
                cands = sorted((d for d in set(deps[k]) if not isinstance(g[d], (DataNode, Alias)) and d in cache),
                               key=lambda d: uid[d])
                if cands and ch.bool(cfg.recompute_p, "recompute?"):
                    d = cands[ch.int(len(cands), "recompute-dep")]
                    if len(self._lineage(g, deps, d)) <= 80:
                        self._recomputes_left -= 1
                        cache[d] = self._recompute(g, uid, deps, d)

        def run_task(k):
            node = g[k]
            before = None
            if cfg.monitor_inputs:
                before = {d: fingerprint(cache[d]) for d in node.dependencies}
            value = self._run_node(node, cache)
            if before is not None:
                for d, f in before.items():
                    if fingerprint(cache[d]) != f:
                        st.input_mutations += 1
                        st.mutated_by.append(_keyparts(k)[0])
            return value

        def account(k):
            st.tasks += 1
            self.order.append(uid[k])
            self.log.append(("run", uid[k]))
            if st.tasks > cfg.step_cap:
                raise HarnessError(f"step cap {cfg.step_cap} exceeded")

        drain()
        if workers <= 1:
            while ready:
                k = pick()
                pre(k)
                account(k)
                value = self._maybe_probe(g, k, cache, run_task)
                finish(k, value)
                drain()
        else:
            wl = (shared_write_lines(cfg.trace_root, only_global=cfg.park_global and cfg.park_at is not None)
                  if (cfg.whi > 0 or cfg.park_at is not None) else None)
            shared = shared_live
            if shared is not None:
                st.shared_instances = max(st.shared_instances, len(shared))
                gl = shared_write_lines(cfg.trace_root, only_global=True)
            il = Interleaver(ch, cfg.trace_root, cfg.qlo, cfg.qhi, self.log, st.__dict__, write_lines=wl, whi=cfg.whi, qlog=cfg.qlog,
                             park_at=cfg.park_at, shared=shared, global_lines=gl if shared is not None else None)
            running: dict = {}
            failure = None
            while ready or running:
                while ready and len(running) < workers and failure is None:
                    k = pick()
                    pre(k)
                    account(k)
                    vt = il.spawn(uid[k], (lambda kk: (lambda: run_task(kk)))(k))
                    running[vt] = k
                    if ch.bool(0.5, "start-now"):
                        break
                if not running:
                    break
                st.concurrent_max = max(st.concurrent_max, len(running))
                r = il.runnable(list(running))
                if not r:
                    raise HarnessError("deadlock among virtual workers")
                vt = r[ch.int(len(r), "thread")] if len(r) > 1 else r[0]
                il.step(vt)
                if vt.done:
                    k = running.pop(vt)
                    if vt.exc is not None:
                        failure = failure or vt.exc
                    else:
                        finish(k, vt.result)
                        drain()
                if failure is not None and not running:
                    break
            if il.park_at is not None:
                st.park_candidates = max(st.park_candidates, max((2 * vt.nb for vt in il.threads), default=0))
            if failure is not None:
                raise failure
        left = [k for k in g if waiting[k] > 0]
        if left:
            raise HarnessError(f"{len(left)} tasks never became ready")
        return cache

    # ---- probes (never verdicts) ---------------------------------------------
    def _maybe_probe(self, g, k, cache, run_task):
        cfg, ch, st = self.cfg, self.ch, self.stats
        if cfg.crash_p > 0 and ch.bool(cfg.crash_p, "crash?"):
            # crash the task at an arbitrary abTEM line, discard, retry from its inputs
            with LineCounter(cfg.trace_root) as lc:
                ref = run_task(k)
            if lc.lines > 0:
                n = 1 + ch.int(lc.lines, "crash-line")
                try:
                    with CrashTracer(cfg.trace_root, n) as ct:
                        run_task(k)
                except InjectedCrash as e:
                    st.crashes += 1
                    self.log.append(("crash", self.order[-1], str(e)))
                retry = run_task(k)
                if fingerprint(retry) != fingerprint(ref):
                    st.crash_retry_mismatch += 1
                return retry
            return ref
        value = run_task(k)
        if cfg.dup_p > 0 and ch.bool(cfg.dup_p, "dup?"):
            st.dup_runs += 1
            again = run_task(k)
            if fingerprint(again) != fingerprint(value):
                st.dup_mismatch += 1
        return value

    # ---- reporting -------------------------------------------------------------
    def schedule_signature(self) -> str:
        return hashlib.sha1("\n".join(self.order).encode()).hexdigest()[:12]

    def event_digest(self) -> str:
        # switch locations are kept in the log for the reader but not in the digest: abTEM itself iterates over a set
        # of characters (FrozenPhonons._axes), so the *position* of a line event may depend on PYTHONHASHSEED
        return hashlib.sha1(repr([e[:3] if e[0] == "sw" else e for e in self.log]).encode()).hexdigest()[:16]

    def nontrivial(self) -> bool:
        s = self.stats
        return s.choice_points > 0 or s.switches > 0 or s.recomputes > 0 or s.crashes > 0
