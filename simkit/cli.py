"""CLI: check <id> [--tier quick|thorough] [--replay file]"""
from __future__ import annotations

import argparse
import os
import sys

HERE = os.path.dirname(os.path.dirname(os.path.abspath(__file__)))
if HERE not in sys.path:
    sys.path.insert(0, HERE)


def main():
    ap = argparse.ArgumentParser()
    ap.add_argument("prop")
    ap.add_argument("--tier", default=os.environ.get("VERIF_TIER", "quick"), choices=["quick", "thorough"])
    ap.add_argument("--replay")
    ap.add_argument("--workers", type=int)
    a = ap.parse_args()
    seed = int(os.environ.get("VERIF_SEED", "20260921"))
    print(f"VERIF_SEED={seed} property={a.prop} tier={a.tier} repo={os.environ.get('VERIF_REPO', '/repo')}")
    import abtem
    import dask

    # any compute that happens outside a simulated phase (reference runs, library internals that call np.asarray on a
    # dask array) runs synchronously: deterministic, and no dask thread pool exists in the parent when workers are forked
    dask.config.set(scheduler="synchronous")

    repo = os.path.realpath(os.environ.get("VERIF_REPO", "/repo"))
    if not os.path.realpath(abtem.__file__).startswith(repo + os.sep):
        print(f"HARNESS-ERROR abtem imported from {abtem.__file__}, not from {repo}")
        return 2
    if a.prop == "selftest":
        from simkit import selftest

        return selftest.main(seed)
    from simkit import runner

    if a.replay:
        r = runner.replay_file(a.prop, a.replay)
        if r["reproduced"]:
            print(f"VIOLATION property={a.prop} replay={a.replay}")
            return 1
        return 2 if r["error"] else 0
    return runner.run_batch(a.prop, a.tier, seed, a.workers)


if __name__ == "__main__":
    sys.exit(main())
