"""Comparators (DESIGN 2.8): structure exactly, values within a stated tolerance."""
from __future__ import annotations

import dataclasses
import numbers

import numpy as np


def tol_for(precision: str, cross_algorithm=False):
    if precision == "float64":
        return (1e-5 if cross_algorithm else 1e-7), 1e-12
    return 2e-4, 1e-7


def to_numpy(a):
    if hasattr(a, "compute") and not isinstance(a, np.ndarray):
        raise TypeError("lazy array reached the oracle")
    return np.asarray(a)


def close(a, b, rtol, atol):
    """max|a-b| <= atol + rtol*max|b| ; returns (ok, maxdiff, scale)"""
    a = np.asarray(a)
    b = np.asarray(b)
    if a.shape != b.shape:
        return False, float("inf"), 0.0
    if a.size == 0:
        return True, 0.0, 0.0
    with np.errstate(all="ignore"):
        na, nb = np.isnan(a), np.isnan(b)
        if na.any() or nb.any():
            if not np.array_equal(na, nb):
                return False, float("nan"), 0.0
            a = np.where(na, 0, a)
            b = np.where(nb, 0, b)
        d = float(np.max(np.abs(a - b)))
        s = float(np.max(np.abs(b)))
    return d <= atol + rtol * s, d, s


def _plain(v, frtol=1e-6):
    """normalise a metadata value for comparison"""
    if isinstance(v, np.ndarray):
        return ("nd", v.shape, tuple(np.round(v.astype(float), 9).ravel().tolist()) if v.dtype.kind in "fiu" else tuple(v.ravel().tolist()))
    if isinstance(v, (np.floating, float)):
        return float(v)
    if isinstance(v, (np.integer,)):
        return int(v)
    if isinstance(v, (np.bool_,)):
        return bool(v)
    if isinstance(v, (list, tuple)):
        return tuple(_plain(x) for x in v)
    if isinstance(v, dict):
        return {str(k): _plain(x) for k, x in sorted(v.items(), key=lambda kv: str(kv[0]))}
    return v


def values_equal(a, b, frtol=1e-6) -> bool:
    a, b = _plain(a), _plain(b)
    return _eq(a, b, frtol)


def _eq(a, b, frtol):
    if isinstance(a, bool) or isinstance(b, bool):
        return a == b
    if isinstance(a, numbers.Number) and isinstance(b, numbers.Number):
        if isinstance(a, complex) or isinstance(b, complex):
            return abs(a - b) <= frtol * max(abs(a), abs(b), 1e-300) + 1e-12
        if a != a and b != b:
            return True
        return abs(a - b) <= frtol * max(abs(a), abs(b)) + 1e-12
    if isinstance(a, tuple) and isinstance(b, tuple):
        return len(a) == len(b) and all(_eq(x, y, frtol) for x, y in zip(a, b))
    if isinstance(a, dict) and isinstance(b, dict):
        return a.keys() == b.keys() and all(_eq(a[k], b[k], frtol) for k in a)
    return a == b


def axis_record(ax):
    d = {"type": type(ax).__name__}
    if dataclasses.is_dataclass(ax):
        for f in dataclasses.fields(ax):
            d[f.name] = _plain(getattr(ax, f.name))
    return d


def axes_equal(a_list, b_list, frtol=1e-6):
    if len(a_list) != len(b_list):
        return f"{len(a_list)} axes vs {len(b_list)}"
    for i, (a, b) in enumerate(zip(a_list, b_list)):
        ra, rb = axis_record(a), axis_record(b)
        if not _eq(ra, rb, frtol):
            diff = {k: (ra.get(k), rb.get(k)) for k in set(ra) | set(rb) if not _eq(ra.get(k), rb.get(k), frtol)}
            return f"axis {i} differs: {str(diff)[:300]}"
    return None


def compare_objects(ref, sub, rtol, atol, what="", check_meta=True, meta_ignore=()):
    """ref / sub: abTEM array objects (computed).  Returns a list of (aspect, message)."""
    out = []
    if type(ref) is not type(sub):
        return [("type", f"{what}type {type(sub).__name__} != {type(ref).__name__}")]
    ra, sa = to_numpy(ref.array), to_numpy(sub.array)
    if ra.shape != sa.shape:
        return [("shape", f"{what}shape {sa.shape} != {ra.shape}")]
    if ra.dtype != sa.dtype:
        out.append(("dtype", f"{what}dtype {sa.dtype} != {ra.dtype}"))
    m = axes_equal(ref.axes_metadata, sub.axes_metadata)
    if m:
        out.append(("axes", what + m))
    if check_meta:
        rm = {k: v for k, v in ref.metadata.items() if k not in meta_ignore}
        sm = {k: v for k, v in sub.metadata.items() if k not in meta_ignore}
        if not values_equal(rm, sm):
            out.append(("metadata", f"{what}metadata {str(sm)[:200]} != {str(rm)[:200]}"))
    if ra.dtype != sa.dtype and np.dtype("float32") in (ra.real.dtype, sa.real.dtype):
        # one side came out in single precision: judge values at single-precision accuracy
        rtol, atol = max(rtol, 2e-4), max(atol, 1e-7)
    ok, d, s = close(sa, ra, rtol, atol)
    if not ok:
        out.append(("values", f"{what}max|diff|={d:.3g} scale={s:.3g} rtol={rtol:g}"))
    return out


def compare_results(ref, sub, rtol, atol, **kw):
    """results may be a single object or a list (several detectors)"""
    rl = ref if isinstance(ref, (list, tuple)) else [ref]
    sl = sub if isinstance(sub, (list, tuple)) else [sub]
    if len(rl) != len(sl):
        return [("count", f"{len(sl)} outputs != {len(rl)}")]
    out = []
    for i, (r, s) in enumerate(zip(rl, sl)):
        out += compare_objects(r, s, rtol, atol, what=f"out{i}: ", **kw)
    return out
