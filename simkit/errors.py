class HarnessError(Exception):
    """a fault of the verification machinery itself (never a verdict)"""


class HarnessTimeout(HarnessError):
    pass


class InjectedCrash(BaseException):
    """raised by the simulator at an arbitrary abTEM line (a 'crash'); BaseException so that
    library `except Exception` blocks do not swallow it"""


class InjectedIOError(OSError):
    """a *reported* store fault injected by the simulator"""
