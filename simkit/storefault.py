"""Storage seam (DESIGN 2.4): fault proxies around the real zarr stores.

`zarr.storage.LocalStore` / `ZipStore` methods (and os.remove / shutil.rmtree for `overwrite=True`) are wrapped; the real
store and the real file system stay underneath.  Operations are addressed by (store, op, key, per-key occurrence) because
zarr issues them from its own event-loop thread.  Only *reported* faults are injected (the failing call raises OSError):
ENOSPC / EIO before a write, a torn write (a prefix of the bytes reaches the store, then EIO), EIO on read, EIO on
delete / close / open.
"""
from __future__ import annotations

import errno
import inspect
import os
import shutil

from .errors import InjectedIOError

WRITE_OPS = ("set", "set_if_not_exists")
OPS = ("set", "set_if_not_exists", "get", "delete", "delete_dir", "close", "_open", "_sync_open", "exists", "list_dir")
FAULTS_FOR = {
    "set": ("enospc", "eio", "torn"), "set_if_not_exists": ("enospc", "eio"), "get": ("eio",), "delete": ("eio",),
    "delete_dir": ("eio",), "close": ("eio",), "_open": ("eio",), "_sync_open": ("eio",), "exists": ("eio",), "list_dir": ("eio",),
    "os.remove": ("eio",), "shutil.rmtree": ("eio",),
}


class StoreFaults:
    def __init__(self, root_dir: str):
        self.root = os.path.realpath(root_dir)
        self.log: list[tuple] = []          # (store, op, key, occurrence)
        self.plan: list[tuple] = []         # (store, op, key, occurrence, kind)
        self.fired: list[tuple] = []
        self._count: dict = {}
        self._saved: list = []

    # ---- bookkeeping ---------------------------------------------------------------------------------------
    def reset(self, plan=()):
        self.log, self.fired, self._count = [], [], {}
        self.plan = [tuple(p) for p in plan]

    def _hit(self, store, op, key):
        k = (store, op, key)
        n = self._count.get(k, 0)
        self._count[k] = n + 1
        self.log.append((store, op, key, n))
        for p in self.plan:
            if p[:4] == (store, op, key, n):
                self.fired.append(p)
                return p[4]
        return None

    @staticmethod
    def _raise(kind, what):
        code = errno.ENOSPC if kind == "enospc" else errno.EIO
        raise InjectedIOError(code, f"injected {kind} on {what}")

    # ---- install / uninstall ---------------------------------------------------------------------------------
    def install(self):
        import zarr.storage as zs

        sf = self

        def wrap(cls, name):
            orig = getattr(cls, name)
            store = cls.__name__

            def key_of(a):
                return a[0] if a and isinstance(a[0], str) else ""

            if inspect.iscoroutinefunction(orig):
                async def w(self, *a, **k):
                    kind = sf._hit(store, name, key_of(a))
                    if kind == "torn" and len(a) >= 2:
                        try:
                            buf = a[1]
                            half = buf[: max(1, len(buf) // 2)]
                            await orig(self, a[0], half)
                        finally:
                            sf._raise("eio", f"{store}.{name}({key_of(a)}) [torn]")
                    elif kind:
                        sf._raise(kind, f"{store}.{name}({key_of(a)})")
                    return await orig(self, *a, **k)
            else:
                def w(self, *a, **k):
                    kind = sf._hit(store, name, key_of(a))
                    if kind:
                        sf._raise(kind, f"{store}.{name}({key_of(a)})")
                    return orig(self, *a, **k)
            w.__name__ = name
            sf._saved.append((cls, name, orig))
            setattr(cls, name, w)

        for cls in (zs.LocalStore, zs.ZipStore):
            for name in OPS:
                if name in cls.__dict__ or hasattr(cls, name):
                    wrap(cls, name)

        def under(path):
            try:
                return os.path.realpath(path).startswith(self.root)
            except Exception:  # noqa: BLE001
                return False

        o_remove, o_rmtree = os.remove, shutil.rmtree

        def remove(path, *a, **k):
            if under(path):
                kind = sf._hit("os", "os.remove", "")
                if kind:
                    sf._raise(kind, f"os.remove({path})")
            return o_remove(path, *a, **k)

        def rmtree(path, *a, **k):
            if under(path) and not k.get("_sim_internal"):
                kind = sf._hit("os", "shutil.rmtree", "")
                if kind:
                    sf._raise(kind, f"shutil.rmtree({path})")
            k.pop("_sim_internal", None)
            return o_rmtree(path, *a, **k)

        self._saved.append((os, "remove", o_remove))
        self._saved.append((shutil, "rmtree", o_rmtree))
        os.remove, shutil.rmtree = remove, rmtree
        return self

    def uninstall(self):
        for obj, name, orig in reversed(self._saved):
            setattr(obj, name, orig)
        self._saved = []

    def __enter__(self):
        return self.install()

    def __exit__(self, *a):
        self.uninstall()
        return False

    # ---- quiescence --------------------------------------------------------------------------------------------
    @staticmethod
    def quiesce():
        """wait until zarr's private event loop (and its to_thread jobs) has nothing in flight: after a store call raised,
        sibling operations of the same gather keep running in the background and would race with the next step"""
        import asyncio

        from zarr.core import sync as zsync

        async def drain():
            for _ in range(50):
                me = asyncio.current_task()
                others = [t for t in asyncio.all_tasks() if t is not me and not t.done()]
                if not others:
                    return
                await asyncio.gather(*others, return_exceptions=True)

        try:
            zsync.sync(drain())
        except Exception:  # noqa: BLE001 - draining is best effort
            pass

    # ---- enumeration ---------------------------------------------------------------------------------------------
    def fault_points(self, log=None):
        """every (op, fault kind) of a recorded fault-free run"""
        out = []
        for (store, op, key, n) in (log if log is not None else self.log):
            for kind in FAULTS_FOR.get(op, ()):
                out.append((store, op, key, n, kind))
        return out
