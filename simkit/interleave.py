"""Deterministic interleaving of real threads (DESIGN 2.3).

Real `threading.Thread`s, exactly one of which holds the baton at any time.
A controller (the thread that owns the simulated scheduler) hands the baton to
one virtual thread for a *quantum* of traced line events; line events are
produced by `sys.settrace` for frames whose code lives under the abTEM package
directory only, so numpy / numba kernels / pyfftw / dask internals are atomic
steps.  Who runs next and for how long is drawn from `Choices`.
"""
from __future__ import annotations

import sys
import threading

from .errors import HarnessError, InjectedCrash

_tls = threading.local()


def _holds_real_lock() -> bool:
    tid = threading.get_ident()
    try:
        import importlib._bootstrap as ib

        for ref in list(ib._module_locks.values()):
            lock = ref()
            if lock is not None and getattr(lock, "owner", None) == tid:
                return True
    except Exception:  # noqa: BLE001
        pass
    try:
        from numba.core.compiler_lock import global_compiler_lock

        if global_compiler_lock._lock._is_owned():
            return True
    except Exception:  # noqa: BLE001
        pass
    return False


def current_vthread():
    return getattr(_tls, "vt", None)


class VThread:
    __slots__ = ("name", "fn", "go", "done", "result", "exc", "blocked", "lines", "budget", "thread", "il",
                 "crash_at", "where", "wbudget", "prev_w", "wseen", "at_write", "hold", "nb", "pending")

    def __init__(self, il, name, fn):
        self.il = il
        self.name = name
        self.fn = fn
        self.go = threading.Event()
        self.done = False
        self.result = None
        self.exc = None
        self.blocked = None
        self.lines = 0
        self.budget = 0
        self.crash_at = None
        self.where = ""
        self.thread = None
        self.wbudget = 0
        self.prev_w = None  # frame whose last traced line was a counted store line
        self.wseen = {}
        self.at_write = False
        self.hold = 0
        self.nb = 0  # distinct store lines executed so far (park mode)
        self.pending = {}  # frame -> index of the boundary "after the store" that frame still owes (park mode)


class SimLock:
    """Cooperative replacement for `threading.Lock` objects that abTEM code may
    hold across a pre-emption point (config_lock)."""

    def __init__(self, name="lock"):
        self.name = name
        self._held = False
        self.contended = 0

    def acquire(self, blocking=True, timeout=-1):
        while self._held:
            vt = current_vthread()
            if vt is None:
                raise HarnessError(f"SimLock {self.name} contended outside the interleaver")
            if not blocking:
                return False
            self.contended += 1
            vt.blocked = self
            vt.il._yield(vt, "lock")
            vt.blocked = None
        self._held = True
        return True

    def release(self):
        self._held = False

    def locked(self):
        return self._held

    def __enter__(self):
        self.acquire()
        return self

    def __exit__(self, *a):
        self.release()
        return False


class Interleaver:
    WAIT = 100.0  # real seconds before a parked controller declares a harness hang

    WQ = (1, 1, 2, 3, 5, 8, 15, 40, 120, 400)  # write-boundary budgets: park one thread at a store, let another run far
    HQ = (2, 5, 10, 25, 60, 150)  # scheduler steps a thread parked at a store boundary is held back (others overtake it)

    def __init__(self, ch, trace_root: str, qlo: int, qhi: int, log: list, stats: dict, write_lines=None, whi: int = 0,
                 qlog: bool = False, park_at: int | None = None, shared: dict | None = None, global_lines: dict | None = None):
        self.ch = ch
        self.root = trace_root
        self.qlo, self.qhi = qlo, qhi
        # write-directed pre-emption: {filename: lines that store into shared state}; a quantum then also ends at the
        # `wbudget`-th boundary of such a line (just before it executes, or just after it did)
        self.wl = write_lines if (whi > 0 or park_at is not None) else None
        self.whi = whi
        # log-uniform quanta (1, 2, 4, ... <= qhi): fine-grained and long stretches in the same run
        self.qlog = qlog
        # "delay one task at one store": the first thread that reaches its `park_at`-th store boundary (2j = just before the j-th
        # distinct store line it executes, 2j + 1 = just after) is parked until no other thread can run
        self.park_at = park_at
        self.park_used = False
        # park candidates restricted to stores whose `self` is an instance held by >= 2 tasks (id -> object), or that go into
        # a module-level object
        self.shared = shared
        self.global_lines = global_lines or {}
        self.qexp = max(1, int(qhi).bit_length())
        self.log = log
        self.stats = stats
        self._ctrl = threading.Event()
        self.threads: list[VThread] = []
        self._n = 0

    # ---- tracing ---------------------------------------------------------
    def _global_trace(self, frame, event, arg):
        if frame.f_code.co_filename.startswith(self.root):
            return self._line_trace
        return None

    def _line_trace(self, frame, event, arg):
        vt = _tls.vt
        if event != "line":
            if event == "return" and self.park_at is not None and vt.pending:
                idx = vt.pending.pop(frame, None)
                if idx is not None and not self.park_used and idx == self.park_at and not _holds_real_lock():
                    self._park(vt, frame, "(return)")
                return self._line_trace
            if event == "return" and vt.prev_w is frame:
                # the store was the last line of the function: the boundary "after the store" is the return
                vt.prev_w = None
                if self.park_at is not None:
                    return self._line_trace
                vt.wbudget -= 1
                if vt.wbudget <= 0 and not _holds_real_lock():
                    vt.at_write = True
                    self.stats["write_preemptions"] = self.stats.get("write_preemptions", 0) + 1
                    vt.where = f"{frame.f_code.co_filename[len(self.root):]}:{frame.f_lineno}(return)"
                    self._yield(vt, "w")
            return self._line_trace
        vt.lines += 1
        if vt.crash_at is not None and vt.lines >= vt.crash_at:
            vt.crash_at = None
            where = f"{frame.f_code.co_filename[len(self.root):]}:{frame.f_lineno}"
            raise InjectedCrash(where)
        vt.budget -= 1
        if self.wl is not None:
            ws = self.wl.get(frame.f_code.co_filename)
            is_w = ws is not None and frame.f_lineno in ws
            if self.park_at is not None:
                if vt.pending:
                    idx = vt.pending.pop(frame, None)  # boundary just after a store made by this frame
                    if idx is not None and not self.park_used and idx == self.park_at and not _holds_real_lock():
                        self._park(vt, frame, "")
                if is_w and self.shared is not None:
                    gl = self.global_lines.get(frame.f_code.co_filename)
                    if not (gl is not None and frame.f_lineno in gl):
                        me = frame.f_locals.get("self")
                        is_w = me is not None and id(me) in self.shared
                if is_w:
                    key = (frame.f_code, frame.f_lineno)
                    if key not in vt.wseen:
                        vt.wseen[key] = 1
                        vt.pending[frame] = 2 * vt.nb + 1
                        vt.nb += 1
                        if not self.park_used and 2 * (vt.nb - 1) == self.park_at and not _holds_real_lock():
                            self._park(vt, frame, "")
            elif is_w:
                # a store line inside a hot loop is a boundary at its 1st, 2nd, 4th, 8th ... execution by this task only, so
                # that once-per-task stores (cache fills, lazy initialisation) are not drowned by per-slice stores
                key = (frame.f_code, frame.f_lineno)
                c = vt.wseen.get(key, 0) + 1
                vt.wseen[key] = c
                is_w = c & (c - 1) == 0
            # boundary "after the store": the next line event of the SAME frame (calls made while the right-hand side is
            # evaluated produce line events of other frames before the store has happened)
            after = self.park_at is None and vt.prev_w is frame
            if after:
                vt.prev_w = None
            if self.park_at is None and (is_w or after):
                vt.wbudget -= 1
                if vt.wbudget <= 0:
                    vt.budget = 0
                    vt.at_write = True
                    self.stats["write_preemptions"] = self.stats.get("write_preemptions", 0) + 1
            if is_w and self.park_at is None:
                vt.prev_w = frame
        if vt.budget <= 0:
            if _holds_real_lock():
                # never park a thread that owns a real (non-simulated) lock another virtual thread may need:
                # a module import lock (lazy imports inside abTEM functions) or numba's compiler lock
                vt.budget = 1
                return self._line_trace
            vt.where = f"{frame.f_code.co_filename[len(self.root):]}:{frame.f_lineno}"
            self._yield(vt, "q")
        return self._line_trace

    def _park(self, vt, frame, suffix):
        self.park_used = True
        vt.hold = 1 << 30  # until no other thread is runnable (step() clears it)
        vt.where = f"{frame.f_code.co_filename[len(self.root):]}:{frame.f_lineno}{suffix}"
        self.stats["parks"] = self.stats.get("parks", 0) + 1
        self.log.append(("park", vt.name, vt.lines, vt.where))
        self._yield(vt, "p")

    def _yield(self, vt, why):
        vt.go.clear()
        self._ctrl.set()
        vt.go.wait()

    # ---- controller API --------------------------------------------------
    def spawn(self, name, fn, crash_at=None) -> VThread:
        vt = VThread(self, name, fn)
        vt.crash_at = crash_at
        self._n += 1

        def body():
            _tls.vt = vt
            vt.go.wait()
            sys.settrace(self._global_trace)
            try:
                vt.result = fn()
            except BaseException as e:  # noqa: BLE001 - reported to the controller
                vt.exc = e
            finally:
                sys.settrace(None)
                vt.done = True
                self._ctrl.set()

        t = threading.Thread(target=body, name=f"vt-{name}", daemon=True)
        vt.thread = t
        t.start()
        self.threads.append(vt)
        return vt

    def runnable(self, vts):
        r = [vt for vt in vts if not vt.done and not (vt.blocked is not None and vt.blocked._held)]
        free = [vt for vt in r if vt.hold <= 0]
        return free or r

    def step(self, vt: VThread):
        """give `vt` the baton for one quantum"""
        if self.qlog:
            q = 1 << self.ch.int(self.qexp, "quantum-log2")
        else:
            q = self.ch.range(self.qlo, self.qhi, "quantum")
        vt.budget = q
        vt.at_write = False
        vt.hold = 0
        if self.wl is not None:
            if self.park_at is None:
                vt.wbudget = self.WQ[self.ch.int(min(self.whi, len(self.WQ)), "wquantum")]
            for other in self.threads:
                if other is not vt and other.hold > 0:
                    other.hold -= 1
        self._ctrl.clear()
        vt.go.set()
        if not self._ctrl.wait(self.WAIT):
            raise HarnessError(f"hang: virtual thread {vt.name} did not yield within {self.WAIT}s at {vt.where}")
        if self.wl is not None and self.park_at is None and vt.at_write and not vt.done and self.ch.bool(0.3, "hold"):
            # parked right before / after a store into shared state: keep it there while the other threads overtake it
            vt.hold = self.HQ[self.ch.int(len(self.HQ), "hold-steps")]
            self.stats["holds"] = self.stats.get("holds", 0) + 1
        self.stats["switches"] = self.stats.get("switches", 0) + 1
        self.log.append(("sw", vt.name, vt.lines, "done" if vt.done else vt.where))

    def run_all(self, vts):
        """drive the given virtual threads to completion under seeded choices"""
        while True:
            live = [vt for vt in vts if not vt.done]
            if not live:
                return
            r = self.runnable(live)
            if not r:
                raise HarnessError("deadlock: all virtual threads blocked on " +
                                   ",".join(f"{vt.name}->{vt.blocked.name}" for vt in live))
            vt = r[self.ch.int(len(r), "thread")] if len(r) > 1 else r[0]
            self.step(vt)


class CrashTracer:
    """Trace the *current* thread and raise InjectedCrash at its n-th abTEM line."""

    def __init__(self, root: str, n: int):
        self.root, self.n, self.lines, self.fired = root, n, 0, None

    def _g(self, frame, event, arg):
        if frame.f_code.co_filename.startswith(self.root):
            return self._l
        return None

    def _l(self, frame, event, arg):
        if event == "line":
            self.lines += 1
            if self.fired is None and self.lines >= self.n:
                self.fired = f"{frame.f_code.co_filename[len(self.root):]}:{frame.f_lineno}"
                raise InjectedCrash(self.fired)
        return self._l

    def __enter__(self):
        self._old = sys.gettrace()
        sys.settrace(self._g)
        return self

    def __exit__(self, *a):
        sys.settrace(self._old)
        return False


class LineCounter(CrashTracer):
    """count abTEM line events of a call (to place a crash uniformly inside it)"""

    def __init__(self, root):
        super().__init__(root, 1 << 62)
