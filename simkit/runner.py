"""Batch runner, violation handling, minimisation, replay, evidence (DESIGN 2.9-2.10)."""
from __future__ import annotations

import faulthandler
import hashlib
import importlib
import json
import os
import signal
import subprocess
import sys
import time
import traceback
from collections import Counter
from concurrent.futures import ProcessPoolExecutor, as_completed
import multiprocessing as mp

from .choices import Choices, derive_seed
from .errors import HarnessError, HarnessTimeout

VERIF = os.path.dirname(os.path.dirname(os.path.abspath(__file__)))
RUN_TIMEOUT = int(os.environ.get("VERIF_RUN_TIMEOUT", "300"))
ISOLATE = os.environ.get("VERIF_ISOLATE", "1") != "0"


# --------------------------------------------------------------------------
class Run:
    """what a check's `run_one(run)` gets: the choice stream + recording helpers"""

    def __init__(self, ch: Choices):
        self.ch = ch
        self.violations: list[dict] = []
        self.counters: Counter = Counter()
        self.scenario: dict = {}
        self.sig_parts: list = []
        self.sims: list = []
        self.invalid = False
        self.nontrivial = False
        self.probe_run = False
        self._digest = hashlib.sha1()
        self.steps = 0

    # -- recording ----------------------------------------------------------
    def violate(self, clause: str, signature: dict, message: str):
        self.violations.append({"clause": clause, "signature": signature, "message": str(message)[:600]})

    def note(self, key: str, n: int = 1):
        self.counters[key] += n

    def add_sim(self, sim):
        self.sims.append(sim)
        sim.run = self
        if sim.cfg.dup_p > 0 or sim.cfg.crash_p > 0:
            self.probe_run = True  # state-perturbing probes are outside what the properties quantify over
        return sim

    def digest(self, *objs):
        import numpy as np

        for o in objs:
            if isinstance(o, np.ndarray):
                self._digest.update(str(o.shape).encode() + str(o.dtype).encode())
                self._digest.update(np.ascontiguousarray(o).tobytes())
            else:
                self._digest.update(repr(o).encode())

    def outcome(self) -> dict:
        sched_sigs = [s.sched.schedule_signature() for s in self.sims]
        ev = hashlib.sha1()
        stats: Counter = Counter()
        for s in self.sims:
            ev.update(s.sched.event_digest().encode())
            for k, v in s.sched.stats.as_dict().items():
                if isinstance(v, int):
                    if k in ("max_ready", "concurrent_max"):
                        stats[k] = max(stats[k], v)
                    else:
                        stats[k] += v
            for name in s.sched.stats.mutated_by:
                stats["input_mutated_by:" + name[:60]] += 1
            if s.sched.nontrivial():
                self.nontrivial = True
            self.steps += s.sched.stats.tasks + s.sched.stats.switches
        ev.update(repr(self.ch.log).encode())
        stats.update(self.counters)
        return {
            "violations": self.violations,
            "scenario": self.scenario,
            "scenario_sig": hashlib.sha1(json.dumps(self.scenario, sort_keys=True, default=str).encode()).hexdigest()[:12],
            "schedule_sig": hashlib.sha1("|".join(sched_sigs).encode()).hexdigest()[:12],
            "nontrivial": bool(self.nontrivial),
            "invalid": self.invalid,
            "probe_run": self.probe_run,
            "stats": dict(stats),
            "steps": self.steps + len(self.ch.log),
            "event_digest": ev.hexdigest()[:16],
            "result_digest": self._digest.hexdigest()[:16],
            "n_choices": len(self.ch.log),
        }


def load_check(prop: str):
    sys.path.insert(0, VERIF) if VERIF not in sys.path else None
    return importlib.import_module(f"checks.{prop}")


def _alarm(signum, frame):
    raise HarnessTimeout(f"run exceeded {RUN_TIMEOUT}s wall")


def execute(mod, ch: Choices) -> dict:
    """one simulated run = pure function of the choice stream"""
    from .sim import reset_process_state

    reset_process_state()
    run = Run(ch)
    old = signal.signal(signal.SIGALRM, _alarm)
    signal.alarm(RUN_TIMEOUT)
    try:
        mod.run_one(run)
        out = run.outcome()
        out["error"] = None
        if run.violations:
            # the schedule and fault trace of a failing run go into the replay file (for the reader; replay consumes `choices`)
            out["schedule"] = [{"sim": i, "config": s.describe(), "tasks_in_execution_order": s.sched.order[:400],
                                "events": [list(e) for e in s.sched.log if e[0] != "run"][:200]} for i, s in enumerate(run.sims)]
    except HarnessError as e:
        out = run.outcome()
        out["error"] = f"{type(e).__name__}: {e}"
    except Exception as e:  # noqa: BLE001 - a check bug, classified as harness error
        out = run.outcome()
        out["error"] = "unexpected " + "".join(traceback.format_exception(type(e), e, e.__traceback__))[-1500:]
    finally:
        signal.alarm(0)
        signal.signal(signal.SIGALRM, old)
    out["choices"] = ch.values()
    return out


def execute_many_isolated(mod, specs, deadline=None) -> list:
    """Run the given choice streams (each `Choices` or a recorded value list) in ONE forked child of this -- pristine, warmed-up --
    process and return their outcomes.  Every simulated run (or, for checks with `ISOLATE_PER_RUN = False`, every small chunk of
    runs) therefore starts from the same process state: nothing a run leaves behind in module-level caches, memoised functions,
    numba specialisations or library globals reaches another run, so a violation is a function of its own choice list.  The parent
    kills a child that does not answer within the run timeout (a hang inside native code or a real lock cannot be interrupted
    from inside)."""
    import pickle
    import select

    if not ISOLATE:
        return [execute(mod, c if isinstance(c, Choices) else Choices(recorded=c)) for c in specs]
    r, w = os.pipe()
    pid = os.fork()
    if pid == 0:
        code = 0
        try:
            os.close(r)
            outs = []
            for c in specs:
                if deadline is not None and time.time() > deadline:
                    break
                outs.append(execute(mod, c if isinstance(c, Choices) else Choices(recorded=c)))
            data = pickle.dumps(outs, protocol=pickle.HIGHEST_PROTOCOL)
            with os.fdopen(w, "wb") as f:
                f.write(data)
        except BaseException:  # noqa: BLE001
            traceback.print_exc()
            code = 3
        finally:
            os._exit(code)
    os.close(w)
    chunks = []
    limit = time.time() + RUN_TIMEOUT * len(specs) + 30
    timed_out = False
    with os.fdopen(r, "rb") as f:
        while True:
            left = limit - time.time()
            if left <= 0:
                timed_out = True
                break
            ready, _, _ = select.select([f], [], [], min(left, 5.0))
            if not ready:
                continue
            b = os.read(f.fileno(), 1 << 20)
            if not b:
                break
            chunks.append(b)
    if timed_out:
        try:
            os.kill(pid, signal.SIGKILL)
        except OSError:
            pass
    _, status = os.waitpid(pid, 0)
    outs = []
    if chunks and not timed_out:
        try:
            outs = pickle.loads(b"".join(chunks))
        except Exception:  # noqa: BLE001
            outs = []
    if len(outs) < len(specs) and (timed_out or status != 0 or not outs):
        why = (f"HarnessTimeout: isolated child exceeded {RUN_TIMEOUT}s wall per run and was killed" if timed_out
               else f"HarnessError: isolated child exited with status {status} without a result")
        c = specs[len(outs)]
        ch = c if isinstance(c, Choices) else Choices(recorded=c)
        o = Run(ch).outcome()
        o["error"] = why
        o["choices"] = ch.values()
        outs.append(o)
    return outs


def execute_isolated(mod, spec) -> dict:
    return execute_many_isolated(mod, [spec])[0]


def _vkey(v):
    return (v["clause"], json.dumps(v["signature"], sort_keys=True))


# -------- worker side --------------------------------------------------------
def _send(fd, obj):
    import pickle
    import struct

    data = pickle.dumps(obj, protocol=pickle.HIGHEST_PROTOCOL)
    os.write(fd, struct.pack("<Q", len(data)))
    view = memoryview(data)
    while view:
        n = os.write(fd, view[:1 << 16])
        view = view[n:]


def _session_child(mod, prop, batch_seed, indices, deadline, wfd):
    """one long-lived simulated *process*: executes its runs (sessions) in the fixed order `indices`, streaming each outcome to
    the parent.  Which runs share a process, and in which order, is a function of (batch seed, worker count) only."""
    faulthandler.enable()
    code = 0
    try:
        for i in indices:
            if time.time() > deadline:
                break
            seed = derive_seed(batch_seed, prop, i)
            o = execute(mod, Choices(seed))
            o["index"], o["seed"] = i, seed
            if not o["violations"] and not o["error"]:
                o.pop("choices", None)
            _send(wfd, ("run", o))
        _send(wfd, ("done", None))
    except BaseException:  # noqa: BLE001
        traceback.print_exc()
        code = 3
    finally:
        os._exit(code)


def run_sessions(mod, prop, batch_seed, n_runs, nproc, deadline):
    """fork `nproc` session processes; process k executes runs k, k + nproc, k + 2 nproc ... sequentially.  Returns (outcomes,
    harness_errors).  A process that produces nothing for longer than the run timeout is killed (a hang inside native code or on
    a real lock cannot be interrupted from inside); the runs it had left are reported as lost."""
    import pickle
    import select
    import struct

    procs = {}
    for k in range(nproc):
        idx = list(range(k, n_runs, nproc))
        if not idx:
            continue
        r, w = os.pipe()
        pid = os.fork()
        if pid == 0:
            os.close(r)
            for other in procs.values():
                try:
                    os.close(other["fd"])
                except OSError:
                    pass
            _session_child(mod, prop, batch_seed, idx, deadline, w)
        os.close(w)
        procs[r] = {"fd": r, "pid": pid, "k": k, "buf": bytearray(), "last": time.time(), "done": False, "n": 0, "indices": idx}
    outs, errors = [], []
    live = dict(procs)
    while live:
        ready, _, _ = select.select(list(live), [], [], 5.0)
        now = time.time()
        for fd in ready:
            p = live[fd]
            b = os.read(fd, 1 << 20)
            if not b:
                os.close(fd)
                _, status = os.waitpid(p["pid"], 0)
                if not p["done"]:
                    nxt = p["indices"][p["n"]] if p["n"] < len(p["indices"]) else None
                    errors.append(f"session process {p['k']} ended with status {status} before finishing (next run index {nxt})")
                del live[fd]
                continue
            p["buf"] += b
            p["last"] = now
            while len(p["buf"]) >= 8:
                (ln,) = struct.unpack("<Q", bytes(p["buf"][:8]))
                if len(p["buf"]) < 8 + ln:
                    break
                kind, obj = pickle.loads(bytes(p["buf"][8:8 + ln]))
                del p["buf"][:8 + ln]
                if kind == "run":
                    outs.append(obj)
                    p["n"] += 1
                else:
                    p["done"] = True
        for fd, p in list(live.items()):
            if not p["done"] and now - p["last"] > RUN_TIMEOUT + 60:
                nxt = p["indices"][p["n"]] if p["n"] < len(p["indices"]) else None
                errors.append(f"HarnessTimeout: session process {p['k']} silent for {RUN_TIMEOUT + 60}s in run index {nxt}; killed")
                try:
                    os.kill(p["pid"], signal.SIGKILL)
                except OSError:
                    pass
                p["done"] = True  # EOF follows
    return outs, errors


def history_of(index, nproc):
    """indices of the runs executed before `index` in the same session process"""
    return list(range(index % nproc, index, nproc))


# -------- parent side ----------------------------------------------------------
def known_findings():
    p = os.path.join(VERIF, "known_findings.json")
    if not os.path.exists(p):
        return []
    return [f for f in json.load(open(p)).get("findings", []) if f.get("status") == "open"]


def match_known(prop, v, findings):
    for f in findings:
        if f["property"] != prop or f.get("clause") not in (None, v["clause"]):
            continue
        m = f.get("match", {})
        if all(v["signature"].get(k) == val for k, val in m.items()):
            return f
    return None


def run_after_history(mod, history, values) -> dict:
    """outcome of the run `values` executed in a fresh process after the runs in `history` (value lists) -- earlier sessions of
    the same simulated process, whose left-over state (module-level caches, memoised functions) the run may depend on"""
    outs = execute_many_isolated(mod, list(history) + [values])
    if len(outs) < len(history) + 1:
        o = dict(outs[-1])
        o["violations"] = []
        return o
    return outs[-1]


def shrink(mod, values, target_key, budget_runs=250, budget_s=150, history=()):
    """minimise the choice list while the same (clause, signature) still fails"""
    t0 = time.time()
    runs = 0
    best = list(values)
    if history:
        budget_runs = min(budget_runs, 80)

    def fails(cand):
        nonlocal runs
        runs += 1
        o = run_after_history(mod, history, cand)
        if o["error"] or o.get("probe_run"):
            return False
        return any(_vkey(v) == target_key for v in o["violations"])

    def ok():
        return runs < budget_runs and time.time() - t0 < budget_s

    # 1. shortest prefix (rest reads as zeros)
    lo, hi = 0, len(best)
    while lo < hi and ok():
        mid = (lo + hi) // 2
        if fails(best[:mid]):
            hi = mid
        else:
            lo = mid + 1
    if hi < len(best) and fails(best[:hi]):
        best = best[:hi]
    # 2. zero spans
    size = max(1, len(best) // 4)
    while size >= 1 and ok():
        i = 0
        while i < len(best) and ok():
            if any(best[i:i + size]):
                cand = best[:i] + [0] * len(best[i:i + size]) + best[i + size:]
                if fails(cand):
                    best = cand
            i += size
        size //= 2
    # 3. lower single values
    for i in range(len(best)):
        if not ok():
            break
        v = best[i]
        for nv in (v // 2, v - 1):
            if 0 < nv < v and ok():
                cand = best[:i] + [nv] + best[i + 1:]
                if fails(cand):
                    best = cand
                    break
    while best and best[-1] == 0:
        best.pop()
    return best, runs


def _repo_commit():
    try:
        repo = os.environ.get("VERIF_REPO", "/repo")
        return subprocess.check_output(["git", "-C", repo, "rev-parse", "--short", "HEAD"], text=True, stderr=subprocess.DEVNULL).strip()
    except Exception:  # noqa: BLE001
        return None


def write_replay(prop, seed, values, out, v, tag="", history=None):
    d = os.environ.get("VERIF_REPLAY_DIR") or os.path.join(VERIF, "replays")
    os.makedirs(d, exist_ok=True)
    key = hashlib.sha1(repr(_vkey(v)).encode()).hexdigest()[:8]
    path = os.path.join(d, f"{prop}-{seed}-{key}{tag}.json")
    labelled = out.get("choices") or [["?", 0, x] for x in values]
    doc = {
        "property": prop, "clause": v["clause"], "signature": v["signature"], "message": v["message"],
        "seed": seed, "choices": labelled, "scenario": out["scenario"],
        "event_digest": out["event_digest"], "result_digest": out["result_digest"],
        "stats": out["stats"],
        "schedule": out.get("schedule", []),
        "faults": out["scenario"].get("faults_fired", []) if isinstance(out["scenario"], dict) else [],
        "abtem_commit": _repo_commit(),
    }
    if history:
        # sessions executed earlier in the same process; the violation needs the state they leave behind
        doc["history"] = history
    with open(path, "w") as f:
        json.dump(doc, f, indent=1, default=str)
    return path


def replay_file(prop, path, quiet=False):
    mod = load_check(prop)
    if hasattr(mod, "warmup"):
        mod.warmup()
    doc = json.load(open(path))
    for h in doc.get("history", []):
        execute(mod, Choices(recorded=h["choices"]))
    out = execute(mod, Choices(recorded=doc["choices"]))
    want = (doc["clause"], json.dumps(doc["signature"], sort_keys=True))
    same = any(_vkey(v) == want for v in out["violations"])
    res = {"reproduced": same, "event_digest": out["event_digest"], "result_digest": out["result_digest"],
           "digest_match": out["event_digest"] == doc["event_digest"], "error": out["error"],
           "violations": out["violations"]}
    if not quiet:
        print("REPLAY " + json.dumps(res, default=str))
    return res


def fresh_replay(prop, path):
    # same pinned PYTHONHASHSEED as the batch (./check exports 0): dask's own graph optimisation iterates over sets, so the task
    # graph of the same lazy object -- and with it the schedule -- can differ between hash seeds (seen in the self-test: extra,
    # unculled blocks under another seed).  A replay is a function of (choices, code, pinned hash seed).
    env = dict(os.environ)
    p = subprocess.run([sys.executable, os.path.join(VERIF, "simkit", "cli.py"), prop, "--replay", path],
                       capture_output=True, text=True, env=env, timeout=600)
    for line in p.stdout.splitlines():
        if line.startswith("REPLAY "):
            return json.loads(line[7:])
    return {"reproduced": False, "digest_match": False, "error": "no REPLAY line: " + p.stderr[-400:]}


def run_batch(prop: str, tier: str, seed: int, nproc: int | None = None) -> int:
    t0 = time.time()
    os.environ["VERIF_TIER_ACTIVE"] = tier  # checks may deepen their per-run work in the thorough tier
    mod = load_check(prop)
    n_runs, wall = mod.BUDGET[tier]
    n_runs = int(os.environ.get("VERIF_RUNS", n_runs))
    nproc = nproc or int(os.environ.get("VERIF_WORKERS", "16"))
    if hasattr(mod, "warmup"):
        mod.warmup()
    t_warm = time.time() - t0
    deadline = time.time() + wall
    outs: list[dict] = []
    harness_errors: list[str] = []
    nproc = max(1, min(nproc, n_runs))
    outs, worker_errors = run_sessions(mod, prop, seed, n_runs, nproc, deadline)
    harness_errors.extend(worker_errors)
    outs.sort(key=lambda o: o["index"])
    for o in outs:
        if o["error"]:
            harness_errors.append(f"run {o['index']} seed {o['seed']}: {o['error']}")

    # ---- violations -----------------------------------------------------------
    groups: dict = {}
    probe_violations = 0
    probe_groups: Counter = Counter()
    for o in outs:
        for v in o["violations"]:
            if o.get("probe_run"):
                probe_violations += 1
                probe_groups[_vkey(v)] += 1
                continue
            groups.setdefault(_vkey(v), (o, v))
    findings = known_findings()
    known_lines, violation_lines = [], []
    known_seen = set()
    max_shrink = int(os.environ.get("VERIF_MAX_REPORTS", "4"))
    reported = 0
    for key, (o, v) in sorted(groups.items(), key=lambda kv: kv[1][0]["index"]):
        f = match_known(prop, v, findings)
        if f is not None:
            fid = f.get("id", f.get("what"))
            if fid not in known_seen:
                known_seen.add(fid)
                known_lines.append(f"KNOWN-FINDING: property={prop} {f['what']}")
            continue
        if reported >= max_shrink:
            violation_lines.append(f"(further distinct violation not minimised) clause={v['clause']} sig={v['signature']} seed={o['seed']}")
            continue
        reported += 1
        values = [c[2] for c in o["choices"]]
        conf = execute_isolated(mod, values)
        history, history_meta = [], None
        if not any(_vkey(x) == key for x in conf["violations"]):
            # not a function of its own choices: does it depend on what earlier sessions of the same process left behind?
            hist_idx = history_of(o["index"], nproc)
            hist_specs = [Choices(derive_seed(seed, prop, j)) for j in hist_idx]
            full = execute_many_isolated(mod, hist_specs + [values]) if hist_idx else []
            if len(full) != len(hist_idx) + 1 or not any(_vkey(x) == key for x in full[-1]["violations"]):
                harness_errors.append(f"violation of run {o['index']} did not reproduce in a fresh process, alone or after the "
                                      f"{len(hist_idx)} earlier runs of its session process: {v}")
                continue
            hist_vals = [[c[2] for c in h["choices"]] for h in full[:-1]]
            # shortest suffix of the history, then drop single sessions
            keep = list(range(len(hist_vals)))
            n = 1
            while n < len(keep):
                cand = keep[-n:]
                if any(_vkey(x) == key for x in run_after_history(mod, [hist_vals[j] for j in cand], values)["violations"]):
                    keep = cand
                    break
                n *= 2
            for j in list(keep)[:-1] if len(keep) <= 12 else []:
                cand = [x for x in keep if x != j]
                if any(_vkey(x) == key for x in run_after_history(mod, [hist_vals[q] for q in cand], values)["violations"]):
                    keep = cand
            history = [hist_vals[j] for j in keep]
            history_meta = [{"index": hist_idx[j], "seed": derive_seed(seed, prop, hist_idx[j]), "choices": hist_vals[j]} for j in keep]
        small, nshrink = shrink(mod, values, key, history=history)
        final = run_after_history(mod, history, small)
        fv = next(x for x in final["violations"] if _vkey(x) == key)
        path = write_replay(prop, o["seed"], small, final, fv, history=history_meta)
        fr = fresh_replay(prop, path)
        if not fr.get("reproduced"):
            harness_errors.append(f"replay {path} did not reproduce in a fresh interpreter: {fr.get('error')}")
            continue
        if not fr.get("digest_match"):
            harness_errors.append(f"replay {path} reproduced but event digest differs (nondeterminism)")
        print(f"violation clause={fv['clause']} signature={json.dumps(fv['signature'], sort_keys=True)}\n  {fv['message']}\n  minimised {len(values)}->{len(small)} choices in {nshrink} runs")
        violation_lines.append(f"VIOLATION property={prop} replay={path}")

    # ---- evidence ---------------------------------------------------------------
    wall_s = time.time() - t0
    ok_outs = [o for o in outs if not o["error"]]
    distinct = {(o["scenario_sig"], o["schedule_sig"]) for o in ok_outs if o["nontrivial"] and not o["invalid"]}
    totals: Counter = Counter()
    for o in ok_outs:
        for k, val in o["stats"].items():
            if k in ("max_ready", "concurrent_max"):
                totals[k] = max(totals[k], val)
            else:
                totals[k] += val
    samples = [o["scenario"] for o in ok_outs[:3]] + [o["scenario"] for o in ok_outs[-2:]]
    n_viol = sum(1 for l in violation_lines if l.startswith("VIOLATION"))
    n_eval, n_distinct = len(outs), len(distinct)
    if totals.get("executions"):
        # fault-enumeration checks run many executions (one per fault point) inside one seeded workload
        n_eval = int(totals["executions"])
        seen_wl = set()
        n_distinct = 0
        for o in ok_outs:
            if o["scenario_sig"] in seen_wl or o["invalid"]:
                continue
            seen_wl.add(o["scenario_sig"])
            n_distinct += sum(v for k, v in o["stats"].items() if k.startswith("fault_fired_")) + (1 if o["nontrivial"] else 0)
    ev = {
        "property_id": prop, "tier": tier, "seed": seed, "level": mod.LEVEL,
        "coverage": {
            "evaluations": n_eval,
            "distinct_nontrivial": n_distinct,
            "seeded_runs": len(outs),
            "rule": mod.RULE,
            "samples": samples or [{}],
            "planned_runs": n_runs,
            "invalid_scenarios": sum(1 for o in ok_outs if o["invalid"]),
            "probe_runs": sum(1 for o in ok_outs if o.get("probe_run")),
            "probe_violations": probe_violations,
            "runs_per_hour": int(len(outs) / max(wall_s - t_warm, 1e-6) * 3600),
            "simulated_steps": sum(o["steps"] for o in ok_outs),
            "distinct_schedules": len({o["schedule_sig"] for o in ok_outs}),
            "distinct_scenarios": len({o["scenario_sig"] for o in ok_outs}),
            "counters": dict(sorted(totals.items())),
            "known_findings_hit": sorted(known_seen),
            "harness_errors": len(harness_errors),
            "real_vs_stub": getattr(mod, "REAL_VS_STUB", REAL_VS_STUB),
            "workers": nproc, "warmup_s": round(t_warm, 1),
        },
        "assumptions": getattr(mod, "ASSUMPTIONS", []),
        "wall_s": round(wall_s, 2),
        "violations": n_viol,
    }
    evdir = os.environ.get("VERIF_EVIDENCE_DIR") or os.path.join(VERIF, "evidence")
    os.makedirs(evdir, exist_ok=True)
    with open(os.path.join(evdir, f"{prop}.json"), "w") as f:
        json.dump(ev, f, indent=1, default=str)

    for (clause, sigj), n in sorted(probe_groups.items())[:12]:
        print(f"PROBE property={prop} clause={clause} n={n} signature={sigj[:300]}")
    for l in known_lines:
        print(l)
    for l in violation_lines:
        print(l)
    print(f"{prop} {tier}: runs={len(outs)}/{n_runs} distinct_nontrivial={len(distinct)} violations={n_viol} "
          f"known={len(known_seen)} harness_errors={len(harness_errors)} wall={wall_s:.1f}s")
    for h in harness_errors[:10]:
        print("HARNESS-ERROR " + h)
    if n_viol:
        return 1
    if harness_errors:
        return 2
    if len(outs) < max(2, n_runs // 4):
        print(f"HARNESS-ERROR only {len(outs)} of {n_runs} runs completed within the wall budget")
        return 2
    return 0


REAL_VS_STUB = {
    "real": ["abtem (all of it, from VERIF_REPO working tree)", "dask graph construction/optimisation/fusion",
             "numpy", "scipy", "numba kernels", "pyfftw", "zarr codecs + stores on a real file system", "ase"],
    "stub": ["dask executor -> simkit.SimScheduler", "OS thread scheduling -> baton interleaver (settrace line events in abtem/*)",
             "abtem.core.config.config_lock -> cooperative SimLock", "zarr store methods -> fault proxies around the real ones (C30)",
             "progress bars off", "native thread pools pinned to 1"],
    "not_simulated": ["cupy/GPU", "mkl_fft", "dask.distributed", "GPAW"],
}
