"""Common workload vocabulary ("scene", DESIGN 3): pure-data recipes drawn from
`Choices`, and constructors that build *fresh* abTEM objects from a recipe, so
the reference side and the subject side never share an object."""
from __future__ import annotations

import numpy as np

ELEMENTS = ["C", "Si", "O", "Cu", "N", "Au"]


def wavelength(energy):
    from abtem.core.energy import energy2wavelength

    return energy2wavelength(energy)


# ---------------------------------------------------------------- atoms ------
def draw_atoms(ch, max_atoms=4, zmax=None):
    a = ch.pick([4.0, 3.0, 5.0, 6.5], "cell-a")
    b = ch.pick([a, a + 1.0, 3.5], "cell-b")
    c = ch.pick([4.0, 2.0, 3.0, 6.0, 7.3] if zmax is None else [x for x in (4.0, 2.0, 3.0, 6.0) if x <= zmax], "cell-c")
    n = ch.range(1, max_atoms, "natoms")
    symbols = [ch.pick(ELEMENTS, "element") for _ in range(n)]
    return {"cell": [a, b, c], "symbols": symbols, "seed": ch.subseed("atoms-seed")}


def make_atoms(r):
    import ase

    rng = np.random.default_rng(r["seed"])
    pos = rng.random((len(r["symbols"]), 3)) * np.array(r["cell"])
    return ase.Atoms(r["symbols"], positions=pos, cell=r["cell"], pbc=True)


# ---------------------------------------------------------------- potential --
def draw_gpts(ch):
    nx = ch.pick([16, 12, 15, 20, 24, 9], "gpts-x")
    ny = ch.pick([nx, nx + 4, nx - 3 if nx > 10 else nx + 1], "gpts-y")
    return [nx, ny]


def draw_slices(ch, c):
    kind = ch.pick(["scalar", "scalar", "seq"], "slice-kind")
    if kind == "scalar":
        return ch.pick([1.0, 0.5, 2.0, c, 0.7], "slice-thickness")
    # explicit sequence summing to the cell height, short last slice possible
    n = ch.range(2, 5, "n-slices")
    w = np.array([ch.range(1, 4, "slice-w") for _ in range(n)], dtype=float)
    t = (w / w.sum() * c)
    t[-1] = c - t[:-1].sum()
    return [float(x) for x in t]


def num_slices_of(slice_thickness, c):
    if isinstance(slice_thickness, (list, tuple)):
        return len(slice_thickness)
    return int(np.ceil(c / slice_thickness - 1e-9)) if slice_thickness < c else 1


def draw_exit_planes(ch, nslices, p_multi=0.35):
    if nslices < 2 or not ch.bool(p_multi, "exit-planes?"):
        return None
    if ch.bool(0.5, "exit-int"):
        return ch.range(1, max(1, nslices - 1), "exit-every")
    # explicit tuple, optionally with entrance plane (-1); always ends at the last slice
    inner = [i for i in range(nslices - 1) if ch.bool(0.4, "exit-at")]
    planes = ([-1] if ch.bool(0.4, "entrance") else []) + inner + [nslices - 1]
    if len(planes) < 2:
        planes = [-1] + planes
    return planes


def draw_frozen_phonons(ch, max_configs=4):
    return {
        "num_configs": ch.range(1, max_configs, "fp-n"),
        "sigmas": ch.pick([0.1, 0.05, 0.2], "fp-sigma"),
        "directions": ch.pick(["xyz", "xy", "z"], "fp-dir"),
        "ensemble_mean": not ch.bool(0.5, "fp-nomean"),
        "seed": ch.range(1, 1000, "fp-seed"),
    }


def draw_potential(ch, kinds=("atoms", "fp", "ensemble", "array", "crystal"), weights=None, finite_p=0.08,
                   exit_p=0.35, max_configs=4, crystal_fp_p=0.5):
    kind = ch.pick(list(kinds), "pot-kind", weights=weights)
    atoms = draw_atoms(ch, zmax=4.0 if kind == "crystal" else None)
    c = atoms["cell"][2]
    st = draw_slices(ch, c)
    ns = num_slices_of(st, c)
    r = {"kind": kind, "atoms": atoms, "gpts": draw_gpts(ch), "slice_thickness": st,
         "projection": "finite" if ch.bool(finite_p, "finite") else "infinite",
         "parametrization": ch.pick(["lobato", "kirkland"], "param", weights=[4, 1])}
    if kind in ("fp", "ensemble"):
        r["fp"] = draw_frozen_phonons(ch, max_configs)
    if kind == "crystal":
        r["repetitions"] = [ch.range(1, 2, "rep-x"), ch.range(1, 2, "rep-y"), ch.range(1, 3, "rep-z")]
        if ch.bool(crystal_fp_p, "crystal-fp"):
            r["fp"] = draw_frozen_phonons(ch, 3)
            r["num_frozen_phonons"] = ch.range(1, 3, "crystal-nfp")
            r["crystal_seeds"] = ch.range(1, 1000, "crystal-seed")
            r["crystal_mean"] = not ch.bool(0.5, "crystal-nomean")
        ns_total = ns * r["repetitions"][2]
        r["exit_planes"] = ch.range(1, max(1, ns_total - 1), "exit-every") if (ns_total > 1 and ch.bool(exit_p, "exit-planes?")) else None
    else:
        r["exit_planes"] = draw_exit_planes(ch, ns, exit_p)
    r["num_slices"] = ns
    return r


def make_frozen_phonons(r_atoms, fp):
    import abtem

    return abtem.FrozenPhonons(make_atoms(r_atoms), num_configs=fp["num_configs"], sigmas=fp["sigmas"],
                               directions=fp["directions"], ensemble_mean=fp["ensemble_mean"], seed=fp["seed"])


def _ep(x):
    return tuple(x) if isinstance(x, list) else x


def _st(x):
    return tuple(x) if isinstance(x, list) else x


def make_potential(r, atoms_override=None, exit_planes="recipe"):
    """fresh potential from recipe.  `atoms_override` replaces the atoms / ensemble by a plain
    Atoms object (used to build per-configuration references)."""
    import abtem

    ep = _ep(r["exit_planes"]) if exit_planes == "recipe" else exit_planes
    common = dict(gpts=tuple(r["gpts"]), slice_thickness=_st(r["slice_thickness"]), projection=r["projection"],
                  parametrization=r["parametrization"])
    kind = r["kind"]
    if atoms_override is not None:
        return abtem.Potential(atoms_override, exit_planes=ep, **common)
    if kind == "atoms":
        return abtem.Potential(make_atoms(r["atoms"]), exit_planes=ep, **common)
    if kind == "fp":
        return abtem.Potential(make_frozen_phonons(r["atoms"], r["fp"]), exit_planes=ep, **common)
    if kind == "ensemble":
        fp = make_frozen_phonons(r["atoms"], r["fp"])
        ens = fp.to_atoms_ensemble()
        return abtem.Potential(ens, exit_planes=ep, **common)
    if kind == "array":
        return abtem.Potential(make_atoms(r["atoms"]), exit_planes=ep, **common).build(lazy=False)
    if kind == "crystal":
        if "fp" in r:
            unit = abtem.Potential(make_frozen_phonons(r["atoms"], r["fp"]), **common)
            return abtem.CrystalPotential(unit, tuple(r["repetitions"]), num_frozen_phonons=r["num_frozen_phonons"],
                                          exit_planes=ep, seeds=r["crystal_seeds"], ensemble_mean=r["crystal_mean"])
        unit = abtem.Potential(make_atoms(r["atoms"]), **common)
        return abtem.CrystalPotential(unit, tuple(r["repetitions"]), exit_planes=ep)
    raise ValueError(kind)


def potential_extent(r):
    cell = r["atoms"]["cell"]
    rep = r.get("repetitions", [1, 1, 1])
    return [cell[0] * rep[0], cell[1] * rep[1]]


def max_valid_angle(r, energy):
    """largest scattering angle [mrad] inside the antialiasing aperture for this grid"""
    ext = potential_extent(r)
    g = r["gpts"] if r["kind"] != "crystal" else [r["gpts"][0] * r["repetitions"][0], r["gpts"][1] * r["repetitions"][1]]
    kmax = min(g[0] / ext[0], g[1] / ext[1]) / 2.0
    return kmax * (2.0 / 3.0) * wavelength(energy) * 1e3


# ---------------------------------------------------------------- builders ---
def draw_builder(ch, kinds=("probe", "planewave"), aberrations_p=0.5, tilt_p=0.2):
    kind = ch.pick(list(kinds), "builder")
    r = {"kind": kind, "energy": ch.pick([100e3, 60e3, 200e3, 300e3], "energy")}
    if ch.bool(tilt_p, "tilt?"):
        r["tilt"] = [ch.pick([0.0, 5.0, -10.0], "tilt-x"), ch.pick([0.0, 8.0, -3.0], "tilt-y")]
    else:
        r["tilt"] = [0.0, 0.0]
    if kind == "probe":
        r["semiangle_cutoff"] = ch.pick([20.0, 10.0, 30.0, 15.5], "cutoff")
        r["soft"] = not ch.bool(0.3, "hard")
        r["aberrations"] = {}
        if ch.bool(aberrations_p, "aberrations?"):
            for name, vals in (("C10", [30.0, -50.0, 100.0]), ("C30", [1e4, -2e4, 1e5]), ("C12", [20.0, 50.0]),
                               ("phi12", [0.5, 1.2]), ("C21", [200.0, 500.0]), ("phi21", [0.3, 2.0])):
                if ch.bool(0.4, "ab-" + name):
                    r["aberrations"][name] = ch.pick(vals, "ab-val")
    else:
        r["normalize"] = ch.bool(0.4, "normalize")
    return r


def make_builder(r, **extra):
    import abtem

    if r["kind"] == "probe":
        return abtem.Probe(semiangle_cutoff=r["semiangle_cutoff"], energy=r["energy"], soft=r["soft"],
                           tilt=tuple(r["tilt"]), aberrations=dict(r["aberrations"]) or None, **extra)
    return abtem.PlaneWave(energy=r["energy"], normalize=r["normalize"], tilt=tuple(r["tilt"]), **extra)


# ---------------------------------------------------------------- scans ------
def draw_scan(ch, extent, kinds=("none", "point", "custom", "line", "grid")):
    kind = ch.pick(list(kinds), "scan")
    ex, ey = extent
    r = {"kind": kind}
    if kind == "point":
        r["position"] = [ch.float(0, ex, "px", 20), ch.float(0, ey, "py", 20)]
    elif kind == "custom":
        r["n"] = ch.range(1, 6, "n-pos")
        r["seed"] = ch.subseed("pos-seed")
        r["extent"] = [ex, ey]
    elif kind == "line":
        r.update(start=[0.0, ch.float(0, ey / 2, "ly", 10)], end=[ch.float(ex / 2, ex, "lx", 10), ey / 2],
                 gpts=ch.range(2, 7, "line-gpts"), endpoint=ch.bool(0.5, "endpoint"))
    elif kind == "grid":
        r.update(start=[0.0, 0.0], end=[ch.float(ex / 4, ex, "gx", 8), ch.float(ey / 4, ey, "gy", 8)],
                 gpts=[ch.range(1, 4, "grid-nx"), ch.range(1, 4, "grid-ny")], endpoint=ch.bool(0.3, "endpoint"))
        if r["endpoint"]:
            r["gpts"] = [max(2, g) for g in r["gpts"]]
    return r


def make_scan(r):
    import abtem

    k = r["kind"]
    if k == "none":
        return None
    if k == "point":
        return abtem.CustomScan(np.array([r["position"]]), squeeze=True)
    if k == "custom":
        rng = np.random.default_rng(r["seed"])
        return abtem.CustomScan(rng.random((r["n"], 2)) * np.array(r["extent"]))
    if k == "line":
        return abtem.LineScan(start=tuple(r["start"]), end=tuple(r["end"]), gpts=r["gpts"], endpoint=r["endpoint"])
    if k == "grid":
        return abtem.GridScan(start=tuple(r["start"]), end=tuple(r["end"]), gpts=tuple(r["gpts"]), endpoint=r["endpoint"])
    raise ValueError(k)


def scan_size(r):
    k = r["kind"]
    return {"none": 1, "point": 1}.get(k) or (r["n"] if k == "custom" else r["gpts"] if k == "line" else r["gpts"][0] * r["gpts"][1])


# ---------------------------------------------------------------- detectors --
def draw_detectors(ch, amax, kinds=("waves", "annular", "flexible", "segmented", "pixelated"), max_n=3):
    n = ch.pick([1, 1, 2, 3][:max_n + 1], "n-det")
    out = []
    for _ in range(n):
        k = ch.pick(list(kinds), "det")
        d = {"kind": k}
        if k == "annular":
            inner = round(ch.float(0.0, 0.4, "det-in", 8) * amax, 3)
            outer = round(inner + ch.float(0.2, 0.5, "det-w", 6) * amax, 3)
            d.update(inner=inner, outer=outer)
            if ch.bool(0.15, "det-offset"):
                d["offset"] = [round(0.1 * amax, 3), 0.0]
        elif k == "flexible":
            d.update(step_size=ch.pick([1.0, 2.5, 5.0], "det-step"))
        elif k == "segmented":
            inner = round(ch.float(0.05, 0.3, "det-in", 5) * amax, 3)
            d.update(nbins_radial=ch.range(1, 3, "nr"), nbins_azimuthal=ch.pick([1, 2, 4, 3], "na"),
                     inner=inner, outer=round(inner + 0.5 * amax, 3), rotation=ch.pick([0.0, 0.3], "rot"))
        elif k == "pixelated":
            d.update(max_angle=ch.pick(["valid", "cutoff", None], "det-max"))
        out.append(d)
    return out


def make_detectors(rs):
    import abtem

    out = []
    for d in rs:
        k = d["kind"]
        if k == "waves":
            out.append(abtem.WavesDetector())
        elif k == "annular":
            out.append(abtem.AnnularDetector(inner=d["inner"], outer=d["outer"], offset=tuple(d.get("offset", (0.0, 0.0)))))
        elif k == "flexible":
            out.append(abtem.FlexibleAnnularDetector(step_size=d["step_size"]))
        elif k == "segmented":
            out.append(abtem.SegmentedDetector(nbins_radial=d["nbins_radial"], nbins_azimuthal=d["nbins_azimuthal"],
                                               inner=d["inner"], outer=d["outer"], rotation=d["rotation"]))
        elif k == "pixelated":
            out.append(abtem.PixelatedDetector(max_angle=d["max_angle"]))
    return out[0] if len(out) == 1 else out


# ---------------------------------------------------------------- knobs ------
def draw_knobs(ch, float64_p=0.7, fftw_p=0.3):
    return {
        "precision": "float64" if ch.bool(float64_p, "float64") else "float32",
        "fft": "fftw" if ch.bool(fftw_p, "fftw") else "numpy",
        # dask.chunk-size in units of one wave function (None = shipped 128 MB): small values make "auto"
        # chunking split even tiny problems into many blocks.  Less than one wave is a documented user error.
        "chunk_waves": ch.pick([None, 1, 2, 3, 5, 8], "chunk-waves"),
        "max_batch": ch.pick(["auto", 1, 2, 3, 5], "max-batch"),
    }


def chunk_size_bytes(chunk_waves, gpts, precision):
    if chunk_waves is None:
        return "128 MB"
    item = 16 if precision == "float64" else 8
    return f"{int(chunk_waves * gpts[0] * gpts[1] * item + item)} B"


def knob_overrides(k, gpts=None):
    return {"precision": k["precision"], "fft": k["fft"],
            "dask.chunk-size": chunk_size_bytes(k.get("chunk_waves") if gpts is not None else None, gpts, k["precision"]),
            "fftw.planning_effort": "FFTW_ESTIMATE", "fftw.threads": 1}


def wave_gpts(pot_recipe):
    g = pot_recipe["gpts"]
    rep = pot_recipe.get("repetitions", [1, 1, 1])
    return [g[0] * rep[0], g[1] * rep[1]]
