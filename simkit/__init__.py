"""simkit -- deterministic simulation with fault injection for abTEM (see /verif/DESIGN.md)."""
