from __future__ import annotations

import traceback


def tb(e: BaseException, n=4) -> str:
    """the innermost frames of an exception, compact (for violation messages)"""
    fr = traceback.extract_tb(e.__traceback__)[-n:]
    return " <- ".join(f"{f.filename.split('/')[-1]}:{f.lineno}:{f.name}" for f in reversed(fr))
