"""Sim -- one simulated run: pristine process state + SimScheduler + seams (DESIGN 2.2-2.6)."""
from __future__ import annotations

import copy
import os
import warnings

from .interleave import SimLock
from .scheduler import SimConfig, SimScheduler

REPO = os.environ.get("VERIF_REPO", "/repo")
TRACE_ROOT = os.path.join(os.path.realpath(REPO), "abtem") + os.sep

_PRISTINE = None


def pristine_config():
    """deep copy of abTEM's configuration as loaded from its shipped defaults"""
    global _PRISTINE
    import abtem.core.config as cfg

    if _PRISTINE is None:
        _PRISTINE = copy.deepcopy(cfg.config)
    return copy.deepcopy(_PRISTINE)


def reset_process_state(overrides: dict | None = None):
    """every run starts from the shipped configuration (progress bars off)"""
    import abtem.core.config as cfg

    try:  # FFTW wisdom is process-global history: the wisdom-hit and wisdom-miss paths execute different abTEM lines
        import pyfftw

        pyfftw.forget_wisdom()
    except ImportError:
        pass
    if cfg.config_lock.locked():
        # an injected crash that lands on the line event CPython attributes to leaving a `with lock:` block skips the
        # release (the same window an asynchronous KeyboardInterrupt has); never let that leak into the next run
        cfg.config_lock.release()
    base = pristine_config()
    cfg.config.clear()
    cfg.config.update(base)
    cfg.config["diagnostics"]["progress_bar"] = False
    cfg.config["diagnostics"]["task_progress"] = False
    for k, v in (overrides or {}).items():
        d = cfg.config
        parts = k.split(".")
        for p in parts[:-1]:
            d = d[p]
        d[parts[-1]] = v


def park_profile_config(ch) -> SimConfig:
    """multi-worker schedule that never parks but counts the park candidates (stores into instances shared by >= 2 tasks or
    into module-level objects) each task offers; `stats.park_candidates` then sizes the draw of a real park target"""
    c = SimConfig(trace_root=TRACE_ROOT)
    c.reorder = ch.bool(0.85, "reorder")
    c.workers = ch.range(2, 4, "workers")
    c.qlo, c.qhi = 1, ch.pick([5000, 1000], "park-qhi")
    c.park_shared = True
    c.park_at = 1 << 30
    c.release = not ch.bool(0.3, "keep-all")
    return c


def lockstep_config(ch) -> SimConfig:
    """2-3 workers advancing 1-8 lines at a time: adjacent lines of two tasks alternate (races on scratch buffers that are
    written by one statement and read by the next, with no store statement in between); affordable for small graphs only"""
    c = SimConfig(trace_root=TRACE_ROOT)
    c.reorder = ch.bool(0.85, "reorder")
    c.workers = ch.range(2, 3, "workers")
    c.qlo, c.qhi = 1, ch.pick([2, 4, 8], "lockstep-qhi")
    c.release = not ch.bool(0.3, "keep-all")
    return c


def park_config(ch, candidates: int) -> SimConfig:
    """delay one task at one of the `candidates` shared-store boundaries found by a profiling schedule"""
    c = park_profile_config(ch)
    c.park_at = ch.int(max(1, candidates), "park-at-profiled")
    return c


def draw_sim_config(ch, *, allow_threads=True, allow_recompute=True, probes=False, light=False, force_threads=False, write_preempt=None) -> SimConfig:
    """swarm: each schedule / fault kind has a per-run enable bit"""
    c = SimConfig(trace_root=TRACE_ROOT)
    c.reorder = ch.bool(0.85, "reorder")
    if allow_threads and (force_threads or ch.bool(0.2 if light else 0.35, "threads")):
        c.workers = ch.range(2, 4, "workers")
        if force_threads or ch.bool(0.4, "qlog"):
            c.qlog = True
            hi = ch.pick([1024, 256, 4096], "qhi-log")
        else:
            hi = ch.pick([5, 40, 200], "qhi")
        c.qlo, c.qhi = 1, hi
        if (write_preempt is None or write_preempt == "park") and ch.bool(0.7 if write_preempt == "park" else 0.2, "park"):
            # delay ONE task at ONE store (just before or just after it) until every other task that can run has run: the
            # schedule that exposes publish-before-complete and check-then-act on caches, one candidate store per run
            c.qlog = False
            c.qhi = ch.pick([5000, 1000], "park-qhi")
            kind = ch.pick(["shared", "global", "any"], "park-kind", weights=[5, 3, 2])
            if kind == "global":
                # candidate stores: only those into module-level objects (memos, registries) -- few per task, visible to all
                c.park_global = True
                c.park_at = ch.pick(list(range(6)), "park-at-global", weights=[1.0 / (i + 2) for i in range(6)])
            elif kind == "shared":
                # candidate stores: into instances that at least two tasks of the graph hold (detectors, a CrystalPotential's
                # unit and its integrator ...) or into module-level objects
                c.park_shared = True
                c.park_at = ch.pick(list(range(12)), "park-at-shared", weights=[1.0 / (i + 2) for i in range(12)])
            else:
                c.park_at = ch.int(ch.pick([48, 80, 128], "park-range"), "park-at")
        elif write_preempt if write_preempt not in (None, "park") else ch.bool(0.4, "write-preempt"):
            # hand over at stores into shared state (attributes, caches, module globals) rather than after a number of lines:
            # budgets in write boundaries are heavy-tailed (1 .. 400), so one thread is parked at a store while another runs far
            c.qlog = False
            c.qhi = ch.pick([1000, 5000, 200], "wp-qhi")
            c.whi = ch.pick([3, 5, 3, 10], "whi")
    c.release = not ch.bool(0.3, "keep-all")
    if allow_recompute and ch.bool(0.3, "recompute-on"):
        c.recompute_p = 0.15
    c.monitor_inputs = ch.bool(0.25, "monitor")
    if probes:
        if ch.bool(0.5, "dup-on"):
            c.dup_p = 0.2
        if ch.bool(0.5, "crash-on"):
            c.crash_p = 0.15
    return c


class Sim:
    """context manager for one simulated execution phase"""

    def __init__(self, ch, cfg: SimConfig | None = None, graph_shape=True, run=None):
        self.ch = ch
        self.run = run
        self.nondefault_shape = False
        self.cfg = cfg or SimConfig(trace_root=TRACE_ROOT)
        self.sched = SimScheduler(ch, self.cfg)
        self.graph_shape = graph_shape
        self.optimize_graph = True
        self.fuse = None
        self._ctx = None

    def __enter__(self):
        import dask
        import abtem.core.config as acfg

        settings = {"scheduler": self.sched}
        if self.graph_shape:
            # graph shape (dask optimisation flags) is NOT in what the properties quantify over, and dask itself
            # mis-executes some unoptimised graphs (0-d from_delayed blocks): a run with a non-default shape is a
            # probe run -- its findings are counted and printed as PROBE, never as VIOLATION.
            # The shape is drawn ONCE per run (a run with several simulated phases would otherwise almost always contain a
            # non-default one and lose its verdicts); every phase of the run then uses it.
            shape = getattr(self.run, "_graph_shape", None) if self.run is not None else None
            if shape is None:
                shape = (not self.ch.bool(0.05, "no-optimize"), self.ch.pick([None, True, False], "fuse", weights=[0.9, 0.05, 0.05]))
                if self.run is not None:
                    self.run._graph_shape = shape
            self.optimize_graph, self.fuse = shape
            if self.fuse is not None:
                settings["optimization.fuse.active"] = self.fuse
            self.nondefault_shape = (not self.optimize_graph) or self.fuse is not None
            if self.run is not None and self.nondefault_shape:
                self.run.probe_run = True
        self._ctx = dask.config.set(settings)
        self._ctx.__enter__()
        # cooperative config lock (bound as a default argument of set.__init__)
        self._old_defaults = acfg.set.__init__.__defaults__
        self.lock = SimLock("config_lock")
        d = list(self._old_defaults)
        for i, x in enumerate(d):
            if x is acfg.config_lock:
                d[i] = self.lock
        acfg.set.__init__.__defaults__ = tuple(d)
        self._filters = warnings.filters[:]
        return self

    def __exit__(self, *a):
        import abtem.core.config as acfg

        acfg.set.__init__.__defaults__ = self._old_defaults
        warnings.filters[:] = self._filters
        self._ctx.__exit__(*a)
        return False

    def compute(self, obj, **kw):
        """obj.compute() through the simulated scheduler"""
        return obj.compute(optimize_graph=self.optimize_graph, progress_bar=False, **kw)

    def describe(self):
        d = self.cfg.describe()
        d.update(optimize_graph=self.optimize_graph, fuse=self.fuse)
        return d
