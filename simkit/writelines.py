"""Static table of abTEM source lines that store into state another task may see (DESIGN 2.3, write-directed pre-emption).

A line is a *shared-write line* when it is an assignment / augmented assignment / delete whose target is
  - an attribute (`self._cache = ...`, `obj.attr += ...`),
  - a subscript of an attribute (`self._scattering_factors[symbol] = ...`), or
  - a subscript / attribute of a module-level name (`_cache["key"] = ...`),
or a `global` rebinding.  Check-then-act and publish-before-complete races live in the few lines before and after such stores;
the interleaver can be asked to hand the baton over exactly there instead of after a uniformly drawn number of lines.
The table is a pure function of the source tree (no run-time information), so schedules stay a function of the seed.
"""
from __future__ import annotations

import ast
import os

_TABLES: dict = {}


def _module_level_names(tree) -> set:
    names = set()
    for node in tree.body:
        targets = []
        if isinstance(node, ast.Assign):
            targets = node.targets
        elif isinstance(node, (ast.AnnAssign, ast.AugAssign)):
            targets = [node.target]
        for t in targets:
            for n in ast.walk(t):
                if isinstance(n, ast.Name):
                    names.add(n.id)
    return names


def _is_shared_target(t, module_names, global_names, only_global=False) -> bool:
    """only_global: the store goes into a module-level object (a module-level memo / registry / flag), which every task of the
    process can see whatever objects it was given"""
    if isinstance(t, (ast.Tuple, ast.List)):
        return any(_is_shared_target(e, module_names, global_names, only_global) for e in t.elts)
    if isinstance(t, ast.Starred):
        return _is_shared_target(t.value, module_names, global_names, only_global)
    if isinstance(t, (ast.Attribute, ast.Subscript)):
        base = t.value
        while isinstance(base, (ast.Subscript, ast.Attribute)):
            base = base.value
        is_global = isinstance(base, ast.Name) and base.id in module_names and base.id not in ("self", "cls")
        if only_global:
            return is_global
        if isinstance(t, ast.Attribute):
            return True
        inner = t.value
        while isinstance(inner, ast.Subscript):
            inner = inner.value
        return isinstance(inner, ast.Attribute) or is_global
    if isinstance(t, ast.Name):
        return t.id in global_names
    return False


def _scan(path, only_global=False) -> frozenset:
    try:
        with open(path, "rb") as f:
            tree = ast.parse(f.read())
    except (OSError, SyntaxError):
        return frozenset()
    module_names = _module_level_names(tree)
    lines = set()
    for fn in ast.walk(tree):
        if not isinstance(fn, (ast.FunctionDef, ast.AsyncFunctionDef)):
            continue
        if fn.name in ("__init__", "__new__", "__post_init__"):
            continue  # stores into an object that no other task can see yet
        global_names = set()
        for n in ast.walk(fn):
            if isinstance(n, ast.Global):
                global_names.update(n.names)
        for n in ast.walk(fn):
            targets = []
            if isinstance(n, ast.Assign):
                targets = n.targets
            elif isinstance(n, (ast.AugAssign, ast.AnnAssign)):
                targets = [n.target]
            elif isinstance(n, ast.Delete):
                targets = n.targets
            if any(_is_shared_target(t, module_names, global_names, only_global) for t in targets):
                lines.add(n.lineno)
    return frozenset(lines)


def shared_write_lines(root: str, only_global: bool = False) -> dict:
    """{absolute filename: frozenset(line numbers)} for every .py file under `root`"""
    tab = _TABLES.get((root, only_global))
    if tab is None:
        tab = {}
        for d, _dirs, files in sorted(os.walk(root)):
            for fn in sorted(files):
                if fn.endswith(".py"):
                    p = os.path.join(d, fn)
                    s = _scan(p, only_global)
                    if s:
                        tab[p] = s
        _TABLES[(root, only_global)] = tab
    return tab
