"""Determinism self-test (DESIGN 2.11): the same seeds under 16 and under 4 worker processes, and once more in a fresh interpreter
under another PYTHONHASHSEED and worker count, every run in a fresh fork of the warmed-up process; event-log and result digests must
be identical."""
from __future__ import annotations

import glob
import json
import os
import subprocess
import sys
import time
from concurrent.futures import ProcessPoolExecutor
import multiprocessing as mp

from .choices import Choices, derive_seed
from . import runner


def _digests(args):
    prop, seed, indices = args
    mod = runner.load_check(prop)
    out = {}
    for i in indices:
        s = derive_seed(seed, prop, i)
        # every run in a fresh fork of the warmed-up process -- the state in which the runner verifies, minimises and replays a
        # violation.  (Run back to back in one process, the event log of a run can depend on what earlier runs left warm in
        # module-level caches although its result does not; the batch handles that case with session-history replay.)
        o = runner.execute_isolated(mod, Choices(s))
        out[i] = (o["event_digest"], o["result_digest"], o["n_choices"], bool(o["error"]))
    return out


def digests(prop, seed, n, nproc):
    mod = runner.load_check(prop)
    if hasattr(mod, "warmup"):
        mod.warmup()
    chunks = [list(range(i, n, nproc)) for i in range(nproc)]
    res = {}
    with ProcessPoolExecutor(nproc, mp_context=mp.get_context("fork")) as ex:
        for d in ex.map(_digests, [(prop, seed, c) for c in chunks if c]):
            res.update(d)
    return res


def main(seed):
    props = os.environ.get("VERIF_SELFTEST_PROPS")
    props = props.split(",") if props else sorted(os.path.basename(p)[:-3] for p in glob.glob(os.path.join(runner.VERIF, "checks", "C*.py")))
    n = int(os.environ.get("VERIF_SELFTEST_N", "48"))
    if os.environ.get("VERIF_SELFTEST_CHILD"):
        out = {p: digests(p, seed, n, int(os.environ["VERIF_SELFTEST_CHILD"])) for p in props}
        print("DIGESTS " + json.dumps(out))
        return 0
    bad = 0
    t0 = time.time()
    for p in props:
        a = digests(p, seed, n, 16)
        b = digests(p, seed, n, 4)
        env = dict(os.environ, PYTHONHASHSEED="12345", VERIF_SELFTEST_CHILD="7", VERIF_SELFTEST_PROPS=p)
        r = subprocess.run([sys.executable, os.path.join(runner.VERIF, "simkit", "cli.py"), "selftest"], env=env,
                           capture_output=True, text=True, timeout=3600)
        c = {}
        for line in r.stdout.splitlines():
            if line.startswith("DIGESTS "):
                c = {int(k): tuple(v) for k, v in json.loads(line[8:])[p].items()}
        diffs = [i for i in a if a[i] != b.get(i)]
        # results must agree everywhere; the event log may legitimately differ under another PYTHONHASHSEED because dask's graph
        # optimisation is hash-order dependent (./check pins PYTHONHASHSEED, replays run under the same pinned value)
        hdiffs = [i for i in a if i not in diffs and tuple(a[i]) != tuple(c.get(i, ()))]
        rdiffs = [i for i in a if c.get(i) and a[i][1] != c[i][1]]
        errs = sum(1 for i in a if a[i][3])
        print(f"selftest {p}: seeds={len(a)} mismatches={len(diffs)} result_mismatches_other_hashseed={len(rdiffs)} "
              f"event_log_differs_under_other_hashseed={len(hdiffs)} harness_errors={errs} "
              f"(16 vs 4 workers, same PYTHONHASHSEED; fresh interpreter with PYTHONHASHSEED=12345 / 7 workers)")
        for i in (diffs + rdiffs)[:5]:
            print("   seed-index", i, a[i], b.get(i), c.get(i))
        bad += len(diffs) + len(rdiffs)
    print(f"selftest wall={time.time() - t0:.0f}s")
    return 1 if bad else 0
