"""One seed -> one recorded choice sequence (DESIGN 2.1).

Every decision of a simulated run (workload, knobs, schedule, faults) is a draw
from a `Choices` object.  A run is a pure function of the recorded value list,
which therefore *is* the replay file and the thing that gets minimised.

Value 0 is always the simplest alternative, so a truncated / zero-padded list
still replays.
"""
from __future__ import annotations

import hashlib
import random


def derive_seed(*parts) -> int:
    h = hashlib.sha256("|".join(str(p) for p in parts).encode()).digest()
    return int.from_bytes(h[:8], "big")


class Choices:
    def __init__(self, seed: int | None = None, recorded: list | None = None):
        self.seed = seed
        self._rng = random.Random(seed) if recorded is None else None
        self._rec = None if recorded is None else [int(r[-1]) if isinstance(r, (list, tuple)) else int(r) for r in recorded]
        self._pos = 0
        self.log: list[tuple[str, int, int]] = []
        self.overrun = 0

    # -- primitive ---------------------------------------------------------
    def _draw(self, n: int, label: str, weights=None) -> int:
        if n <= 1:
            return 0
        if self._rec is not None:
            if self._pos < len(self._rec):
                v = self._rec[self._pos] % n
            else:
                v = 0
                self.overrun += 1
            self._pos += 1
        else:
            if weights is not None:
                v = self._rng.choices(range(n), weights=weights)[0]
            else:
                v = self._rng.randrange(n)
        self.log.append((label, n, v))
        return v

    # -- public ------------------------------------------------------------
    def int(self, n: int, label: str) -> int:
        """uniform in [0, n)"""
        return self._draw(int(n), label)

    def range(self, lo: int, hi: int, label: str) -> int:
        """uniform in [lo, hi] (inclusive); lo is the simplest"""
        return lo + self._draw(hi - lo + 1, label)

    def bool(self, p: float, label: str) -> bool:
        """True with probability p; False is the simplest"""
        if p <= 0:
            return False
        return bool(self._draw(2, label, weights=(1.0 - p, p)))

    def pick(self, seq, label: str, weights=None):
        seq = list(seq)
        return seq[self._draw(len(seq), label, weights=weights)]

    def subseed(self, label: str) -> int:
        """a 32-bit seed for bulk data (array contents); never drawn element-wise"""
        return self._draw(2**32, label)

    def float(self, lo: float, hi: float, label: str, steps: int = 1000) -> float:
        return lo + (hi - lo) * self._draw(steps + 1, label) / steps

    def values(self) -> list[list]:
        return [[l, n, v] for (l, n, v) in self.log]
