#!/bin/bash
# offline setup: nothing to build; verify that abTEM imports from the working tree and deps are present
set -e
cd "$(dirname "$0")"
mkdir -p .cache/numba evidence replays
PYTHONPATH="${VERIF_REPO:-/repo}" /venv/bin/python -c "import abtem, dask, zarr, numpy, pyfftw; print('abtem from', abtem.__file__)"
