import json, sys, os
sys.path.insert(0, os.path.dirname(os.path.dirname(os.path.abspath(__file__))))
from simkit import runner
from simkit.choices import Choices, derive_seed
from simkit.sim import reset_process_state
prop, idx = sys.argv[1], int(sys.argv[2])
seed = int(os.environ.get("VERIF_SEED", "20260921"))
mod = runner.load_check(prop)
if len(sys.argv) > 3: mod.warmup()
run = runner.Run(Choices(derive_seed(seed, prop, idx)))
reset_process_state()
try:
    mod.run_one(run)
except Exception as e:
    import traceback; traceback.print_exc()
for s in run.sims:
    print("SIM", s.describe())
    for ev in s.sched.log: print(ev)
for c in run.ch.log: print(c)
