#!/venv/bin/python
"""(re)write seeded/<id>/meta.json from the agent's meta and our own confirmation result"""
import json, os, glob
root = os.path.join(os.path.dirname(os.path.dirname(os.path.abspath(__file__))), "seeded")
rows = []
for d in sorted(glob.glob(os.path.join(root, "*"))):
    if not os.path.isdir(d):
        continue
    a = json.load(open(os.path.join(d, "meta_agent.json"))) if os.path.exists(os.path.join(d, "meta_agent.json")) else {}
    r = json.load(open(os.path.join(d, "result.json"))) if os.path.exists(os.path.join(d, "result.json")) else {}
    prop = os.path.basename(d).split("-")[0]
    meta = {
        "property": prop,
        "summary": a.get("summary"),
        "needs_to_manifest": a.get("needs"),
        "origin": "independent sub-agent given only the property text and a scratch worktree of the repository",
        "confirmed_by_us": {
            "demo_exit_on_unchanged_tree": r.get("demo_clean_exit"),
            "demo_exit_with_patch": r.get("demo_patched_exit"),
            "how": "tools/try_seeded.sh: demo.py run with PYTHONPATH=/repo (unchanged) and against a scratch copy of /repo/abtem with patch.diff applied",
        },
        "our_check": {"command": r.get("check"), "exit_code_with_patch": r.get("check_exit"),
                      "caught": r.get("check_exit") == 1, "note": r.get("note", "")},
        "agent_ran": a.get("ran"),
    }
    json.dump(meta, open(os.path.join(d, "meta.json"), "w"), indent=1, ensure_ascii=False)
    rows.append((os.path.basename(d), meta["our_check"]["caught"], (a.get("summary") or "")[:90]))
for r in rows:
    print(*r, sep=" | ")
