#!/bin/bash
# usage: tools/try_seeded.sh <worktree> <i> <PROP> [runs]  -- import seeded change i from a sub-agent's worktree, confirm its demo, run our check
set -u
WT=$1; I=$2; PROP=$3; RUNS=${4:-}
DEST=/verif/seeded/$PROP-$(basename $WT | sed 's/wt-//')-$I
mkdir -p $DEST
cp $WT/seeded/patch$I.diff $DEST/patch.diff; cp $WT/seeded/demo$I.py $DEST/demo.py; cp $WT/seeded/meta$I.json $DEST/meta_agent.json
D=$(mktemp -d /tmp/mut-XXXXXX); trap 'rm -rf "$D"' EXIT
mkdir -p $D/repo && cp -r /repo/abtem $D/repo/abtem
export OMP_NUM_THREADS=1 NUMBA_NUM_THREADS=1
( cd /tmp && PYTHONPATH=/repo timeout 600 /venv/bin/python -W ignore $DEST/demo.py > $D/clean.log 2>&1 ); CLEAN=$?
( cd $D/repo && git apply --unsafe-paths -p1 $DEST/patch.diff 2>$D/apply.log || patch -p1 -s < $DEST/patch.diff ) || { echo "PATCH FAILED"; cat $D/apply.log; exit 3; }
( cd /tmp && PYTHONPATH=$D/repo timeout 600 /venv/bin/python -W ignore $DEST/demo.py > $D/mut.log 2>&1 ); MUT=$?
echo "demo: clean exit=$CLEAN  patched exit=$MUT"
cd /verif
export VERIF_REPO=$D/repo VERIF_EVIDENCE_DIR=$D/evidence VERIF_REPLAY_DIR=$D/replays
[ -n "$RUNS" ] && export VERIF_RUNS=$RUNS
./check $PROP --tier quick > $D/check.log 2>&1; RC=$?
grep -E "^(VIOLATION|KNOWN|violation|C[0-9]+ quick|HARNESS)" $D/check.log | cut -c1-300 | head -8
echo "check exit=$RC"
echo "{\"demo_clean_exit\": $CLEAN, \"demo_patched_exit\": $MUT, \"check\": \"./check $PROP --tier quick\", \"check_exit\": $RC}" > $DEST/result.json
