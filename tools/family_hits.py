"""diagnostic: run one C01 family N times against VERIF_REPO and count violating runs (not a registered check)"""
import os, sys, time
sys.path.insert(0, os.path.dirname(os.path.dirname(os.path.abspath(__file__))))
from concurrent.futures import ProcessPoolExecutor
import multiprocessing as mp


def work(args):
    fam, lo, hi = args
    import dask
    dask.config.set(scheduler="synchronous")
    from simkit import runner
    from simkit.choices import Choices, derive_seed
    from simkit.sim import reset_process_state
    from checks import C01
    C01.warmup()
    out = []
    for idx in range(lo, hi):
        run = runner.Run(Choices(derive_seed(777, "fam" + fam, idx)))
        reset_process_state()
        t = time.time()
        try:
            if fam == "diamond":
                C01.run_diamond(run)
            else:
                sc = C01.draw_race_scenario(run.ch) if fam == "race" else C01.draw_scenario(run.ch)
                run.scenario = sc
                C01.run_pipeline(run, sc, race=fam == "race")
        except Exception as e:  # noqa: BLE001
            out.append((idx, "EXC " + type(e).__name__ + str(e)[:100], time.time() - t, None))
            continue
        probe = any(s.nondefault_shape for s in run.sims)
        v = [x for x in run.violations]
        out.append((idx, len(v) if not probe else 0, time.time() - t, (run.scenario["potential"]["kind"], "fp" in run.scenario["potential"])))
    return out


if __name__ == "__main__":
    fam, n = sys.argv[1], int(sys.argv[2])
    W = 16
    step = (n + W - 1) // W
    with ProcessPoolExecutor(W, mp_context=mp.get_context("fork")) as ex:
        res = [r for chunk in ex.map(work, [(fam, i, min(n, i + step)) for i in range(0, n, step)]) for r in chunk]
    hits = [r for r in res if r[1] not in (0,)]
    print(f"family={fam} runs={len(res)} violating={len(hits)} mean_time={sum(r[2] for r in res)/len(res):.2f}s")
    for r in hits[:12]:
        print("  ", r)
