#!/venv/bin/python
"""tools/mkmutant.py <name> <relative file> <old> <new> [<file2> <old2> <new2> ...] -- write mutants/<name>.diff (repo untouched)"""
import difflib, sys, os
name = sys.argv[1]
triples = sys.argv[2:]
out = []
for i in range(0, len(triples), 3):
    rel, old, new = triples[i:i + 3]
    src = open(os.path.join("/repo", rel)).read()
    assert src.count(old) == 1, f"{rel}: old text occurs {src.count(old)} times"
    dst = src.replace(old, new)
    out += list(difflib.unified_diff(src.splitlines(True), dst.splitlines(True), "a/" + rel, "b/" + rel))
open(os.path.join(os.path.dirname(os.path.dirname(os.path.abspath(__file__))), "mutants", name + ".diff"), "w").writelines(out)
print("wrote", name, len(out), "lines")
