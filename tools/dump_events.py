import json, sys, os
sys.path.insert(0, os.path.dirname(os.path.dirname(os.path.abspath(__file__))))
from simkit import runner
from simkit.choices import Choices
from simkit.sim import reset_process_state
prop, path = sys.argv[1], sys.argv[2]
mod = runner.load_check(prop)
if hasattr(mod,'warmup') and len(sys.argv)>3: mod.warmup()
doc = json.load(open(path))
run = runner.Run(Choices(recorded=doc["choices"]))
reset_process_state()
try:
    mod.run_one(run)
except Exception as e:
    import traceback; traceback.print_exc()
for s in run.sims:
    for ev in s.sched.log: print(ev)
print(run.ch.log)
