"""run index list in order in one process, dump log of the last"""
import json, sys, os
sys.path.insert(0, os.path.dirname(os.path.dirname(os.path.abspath(__file__))))
from simkit import runner
from simkit.choices import Choices, derive_seed
from simkit.sim import reset_process_state
prop = sys.argv[1]; idxs=[int(x) for x in sys.argv[2].split(',')]
seed = int(os.environ.get("VERIF_SEED", "20260921"))
mod = runner.load_check(prop)
mod.warmup()
for idx in idxs:
    run = runner.Run(Choices(derive_seed(seed, prop, idx)))
    reset_process_state()
    mod.run_one(run)
for s in run.sims:
    print("SIM", s.describe())
    for ev in s.sched.log: print(ev)
for c in run.ch.log: print(c)
