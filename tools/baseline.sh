#!/bin/bash
# run the repository's pinned test suite (guard off) and compare with BASELINE.json stable_pass
OUT=$(mktemp -d)
cd /repo && env -u ABTEM_VERIF /venv/bin/python -m pytest -ra -q -p no:cacheprovider --timeout=900 --continue-on-collection-errors -n ${N:-12} --junitxml=$OUT/j.xml > $OUT/log 2>&1
tail -3 $OUT/log
/venv/bin/python - $OUT/j.xml <<'P'
import json, sys, xml.etree.ElementTree as ET
b = json.load(open('/root/.vp/BASELINE.json'))
want = set(b['stable_pass'])
got = set()
for tc in ET.parse(sys.argv[1]).getroot().iter('testcase'):
    ok = not any(c.tag in ('failure', 'error', 'skipped') for c in tc)
    if ok:
        got.add(f"{tc.get('classname')}::{tc.get('name')}")
missing = sorted(want - got)
print(f"stable_pass={len(want)} passed_now={len(got)} missing={len(missing)}")
for m in missing[:20]: print("  MISSING", m)
sys.exit(1 if missing else 0)
P
rc=$?
rm -rf $OUT
exit $rc
