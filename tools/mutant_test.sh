#!/bin/bash
# usage: tools/mutant_test.sh <patch.diff> <property> [runs]   -- apply patch to a scratch copy of /repo, run the check against it
set -u
PATCH=$(realpath "$1"); PROP=$2; RUNS=${3:-}
D=$(mktemp -d /tmp/mut-XXXXXX)
trap 'rm -rf "$D"' EXIT
mkdir -p $D/repo && cp -r /repo/abtem $D/repo/abtem && cp /repo/setup.py /repo/pyproject.toml $D/repo/ 2>/dev/null
( cd $D/repo && git init -q . 2>/dev/null; patch -p1 -s < "$PATCH" ) || { echo "PATCH FAILED"; exit 3; }
cd /verif
# evidence / replays of mutant runs must not overwrite the real ones
export VERIF_REPO=$D/repo VERIF_EVIDENCE_DIR=$D/evidence VERIF_REPLAY_DIR=$D/replays
[ -n "$RUNS" ] && export VERIF_RUNS=$RUNS
./check $PROP --tier quick 2>&1 | grep -v "WARNING conda" | grep -E "^(VIOLATION|KNOWN|violation|C[0-9]+ quick|HARNESS|PROBE)" | cut -c1-400
exit ${PIPESTATUS[0]}
