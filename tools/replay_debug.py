"""debug helper: replay a file in-process and print traceback of exceptions raised by subject"""
import json, sys, os, traceback
sys.path.insert(0, os.path.dirname(os.path.dirname(os.path.abspath(__file__))))
from simkit import runner
from simkit.choices import Choices
prop, path = sys.argv[1], sys.argv[2]
mod = runner.load_check(prop)
doc = json.load(open(path))
print(json.dumps(doc["scenario"], default=str)[:1500])
print(doc["clause"], doc["signature"], doc["message"])
