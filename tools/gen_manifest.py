#!/venv/bin/python
"""Regenerate /verif/MANIFEST.json from checks/*.py (claimed) and the fixed not-applicable table."""
import importlib, json, os, sys
HERE = os.path.dirname(os.path.dirname(os.path.abspath(__file__)))
sys.path.insert(0, HERE)
NA = {
 "C04": "pure array algebra (intensity non-increase / reversibility of one wave): no schedule, clock, fault, history or I/O in the property; deterministic simulation has nothing to decide",
 "C05": "pure per-wave normalisation formula; no schedule/fault/history dimension",
 "C08": "relation between two pure potential builds (translation / tiling); function of the input only",
 "C09": "additivity and slice assignment are pure functions of the atom set",
 "C12": "detector kernels are pure functions of one wave ensemble",
 "C13": "pure index arithmetic on polar bins",
 "C14": "pure crop / shift / mask geometry",
 "C15": "pure Fourier interpolation / shift algebra",
 "C18": "pure integer chunk arithmetic",
 "C20": "pure coordinate generation",
 "C21": "pure formula (aberration polynomial)",
 "C22": "pure formula (polar <-> Cartesian conversion)",
 "C23": "pure formula (aperture / envelope bounds)",
 "C24": "pure formula (relativistic kinematics)",
 "C25": "pure tabulated functions",
 "C27": "pure function of the crystal (structure-factor symmetry)",
 "C28": "pure operators; the RNG-shuffled outer loop is not in the property",
 "C33": "pure unit-conversion arithmetic",
 "C35": "pure axis-metadata algebra",
 "C36": "pure distribution values/weights",
 "C39": "pure relation (tilt = shift per distance); propagator reuse across tilts is not in the statement",
 "C40": "pure kernels on analytic inputs",
}
PENDING = "claimed in DESIGN.md section 3 (has a schedule/history/fault dimension) but its check is not built yet in this revision; listed here until checks/%s.py exists"
props = [json.loads(l) for l in open(os.path.join(HERE, "properties.jsonl"))]
checks, na = [], []
for p in props:
    pid = p["id"]
    if os.path.exists(os.path.join(HERE, "checks", pid + ".py")):
        m = importlib.import_module("checks." + pid)
        checks.append({
            "property_id": pid,
            "quick_cmd": f"./check {pid} --tier quick",
            "thorough_cmd": f"./check {pid} --tier thorough",
            "evidence_file": f"/verif/evidence/{pid}.json",
            "replay_cmd_template": f"./check {pid} --replay {{path}}",
            "engine": "simkit",
            "level_claimed": {"category": m.LEVEL, "text": m.LEVEL_TEXT, "design_ref": f"DESIGN.md section 3, {pid}"},
            "level_note": m.LEVEL_NOTE,
            "technique": m.TECHNIQUE,
        })
    elif pid in NA:
        na.append({"property_id": pid, "reason": "not applicable to deterministic simulation: " + NA[pid]})
    else:
        na.append({"property_id": pid, "reason": PENDING % pid})
man = {
 "version": 1,
 "setup_cmd": "./setup.sh",
 "hooks": {"guard": "ABTEM_VERIF", "enable": "no source hooks in /repo: all seams (dask scheduler, sys.settrace, zarr store methods, config defaults, RNG constructors) are attached from /verif at run time; ./check exports ABTEM_VERIF=1 for symmetry only",
           "baseline_off_cmd": "cd /repo && /venv/bin/python -m pytest -ra -q -p no:cacheprovider --timeout=900 --continue-on-collection-errors",
           "source_commits": [], "add_only": True},
 "engines": [{"name": "simkit", "path": "/verif/simkit", "serves_properties": [c["property_id"] for c in checks],
              "kind_free_text": "deterministic simulation with fault injection: seeded choice stream -> simulated dask executor (reorder / interleave via baton threads + settrace / release / recompute-lineage), history machines, zarr store fault proxies, shrinker and replay"}],
 "checks": checks,
 "not_applicable": na,
 "notes": "See DESIGN.md. Exit codes: 0 held, 1 VIOLATION, 2 HARNESS-ERROR. known_findings.json lists recorded genuine defects.",
}
json.dump(man, open(os.path.join(HERE, "MANIFEST.json"), "w"), indent=1)
print(f"claimed {len(checks)}, not applicable {len(na)}")
