#!/bin/bash
# tools/commit_fix.sh "<commit message>"  -- run the pinned baseline and commit /repo/abtem changes only if it still passes
/verif/tools/baseline.sh > /tmp/baseline.$$ 2>&1; rc=$?
grep -v "WARNING conda" /tmp/baseline.$$ | tail -3; rm -f /tmp/baseline.$$
[ $rc -eq 0 ] || { echo "BASELINE FAILED - not committing"; exit 1; }
cd /repo && git add -A abtem && git commit -qm "$1" && git log --oneline | head -1
