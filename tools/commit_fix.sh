#!/bin/bash
# tools/commit_fix.sh "<commit message>"  -- run the pinned baseline and commit staged /repo changes only if it still passes
set -e
/verif/tools/baseline.sh 2>&1 | grep -v "WARNING conda" | tail -3
cd /repo && git add -A abtem && git commit -qm "$1" && git log --oneline | head -1
