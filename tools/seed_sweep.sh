#!/bin/bash
# tools/seed_sweep.sh <seed>... : run every claimed check's quick tier with other batch seeds (false-alarm hunting); evidence goes to a scratch dir
cd /verif
for sd in "$@"; do
  for p in $(/venv/bin/python -c "import json;print(' '.join(c['property_id'] for c in json.load(open('MANIFEST.json'))['checks']))"); do
    out=$(VERIF_SEED=$sd VERIF_EVIDENCE_DIR=/tmp/sweep-evidence VERIF_REPLAY_DIR=/verif/replays/sweep ./check $p --tier quick 2>&1); rc=$?
    echo "seed=$sd $p rc=$rc :: $(echo "$out" | grep -E "quick:" | tail -1 | cut -c1-160)"
    echo "$out" | grep -E "^(VIOLATION|HARNESS|violation)" | cut -c1-400 | head -6
  done
done
