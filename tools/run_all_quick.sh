#!/bin/bash
# run every claimed check's quick command in sequence, summarise
cd /verif
for p in $(/venv/bin/python -c "import json;print(' '.join(c['property_id'] for c in json.load(open('MANIFEST.json'))['checks']))"); do
  s=$(date +%s); out=$(./check $p --tier quick 2>&1); rc=$?; e=$(( $(date +%s) - s ))
  echo "$p rc=$rc ${e}s :: $(echo "$out" | grep -E "quick:" | tail -1)"
  echo "$out" | grep -E "^(VIOLATION|HARNESS)" | head -3
done
python3-vt - <<'P'
import json,glob,jsonschema
s=json.load(open('/root/.vp/EVIDENCE.schema.json')); bad=0
for f in sorted(glob.glob('/verif/evidence/*.json')):
    try: jsonschema.validate(json.load(open(f)), s)
    except Exception as e: bad+=1; print('INVALID',f,str(e)[:200])
jsonschema.validate(json.load(open('/verif/MANIFEST.json')), json.load(open('/root/.vp/MANIFEST.schema.json')))
print('evidence files valid:', len(glob.glob('/verif/evidence/*.json'))-bad, 'invalid:', bad)
P
