"""Harness self-test, not a property check: a 'system' with a deliberate process-global leak, used to exercise the runner's
session-history fallback (a violation that is not a function of its own choices but of an earlier session of the same process).
Run with: ./check ZHIST  (expected: exit 1, replay file with a one-element `history`)."""
from __future__ import annotations

PROPERTY = "ZHIST"
LEVEL = "exploration"
BUDGET = {"quick": (64, 60), "thorough": (64, 60)}
RULE = "self-test"
ASSUMPTIONS = []
TECHNIQUE = "self-test"
LEVEL_TEXT = LEVEL_NOTE = "self-test"

_SEEN: dict = {}


def warmup():
    pass


def run_one(run):
    ch = run.ch
    key = ch.int(6, "key")
    val = ch.int(1000, "val")
    run.scenario = {"key": key, "val": val}
    run.nontrivial = True
    # the 'library' memoises by key only; a later session with the same key and another value gets the stale value
    got = _SEEN.setdefault(key, val) if key == 3 else val
    if got != val:
        run.violate("fresh-value", {"aspect": "stale", "key": key}, f"got {got} want {val}")
