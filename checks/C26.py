"""C26 -- Bloch-wave dynamical diffraction conserves intensity (DESIGN 3, C26)."""
from __future__ import annotations

import numpy as np

from simkit import oracle
from simkit.errors import HarnessError, InjectedCrash
from simkit.sim import Sim, draw_sim_config, lockstep_config, park_config, park_profile_config, reset_process_state
from simkit.util import tb

PROPERTY = "C26"
LEVEL = "exploration"
BUDGET = {"quick": (480, 150), "thorough": (16000, 1500)}
RULE = ("seeded crystal (cubic Si / Cu / Fe / NaCl, hexagonal Mg, orthorhombic Mg and a two-atom orthorhombic cell, optional thermal "
        "sigma), g_max, sg_max, energy, small-angle orientation (rotate about x / y) and a thickness list that contains 0. Subjects: "
        "eager calculate_diffraction_patterns; the lazy one computed by SimScheduler; calculate_scattering_matrix(z) (matrix "
        "exponential); half of the runs also compute a second thickness series of the same length together with the first in one graph "
        "(profiling multi-worker schedule, then one task parked at a shared store). Oracles: intensities sum to 1 at every thickness; zero thickness is the direct beam only; lazy = eager; "
        "|S(z)[:, 000]|^2 = the eigen-decomposition intensities at z; the caller's structure-factor block is not modified. "
        "distinct = (scenario hash, schedule hash); non-trivial = >= 2 beams and a non-zero thickness")
ASSUMPTIONS = ["sum of intensities compared to 1 within 1e-3 (float64) / 3e-3 (float32) -- the formulation conserves flux, the plain sum only "
               "to O(g_z/K); matrix exponential vs eigen path within 1e-3 / 3e-3 absolute (intensities are <= 1)"]
TECHNIQUE = "deterministic simulation: lazy Bloch-wave graphs under simulated schedules vs eager, plus conservation / cross-path oracles"
LEVEL_TEXT = "seeded search over crystals x orientations x energies x thickness lists x simulated schedules"
LEVEL_NOTE = "sampled; a handful of crystal prototypes; LAPACK eig / expm trusted"

CRYSTALS = ["Si", "Cu", "Fe", "NaCl", "Mg-hcp", "Mg-ortho", "ortho2"]


def warmup():
    import abtem  # noqa: F401
    from ase.build import bulk
    from abtem.bloch import BlochWaves, StructureFactor

    reset_process_state({"precision": "float64"})
    bw = BlochWaves(structure_factor=StructureFactor(bulk("Cu", cubic=True), g_max=2.5), energy=200e3, sg_max=0.1)
    bw.calculate_diffraction_patterns([0.0, 10.0], lazy=False)
    bw.calculate_scattering_matrix(10.0)
    reset_process_state()


def make_atoms(name):
    import ase
    from ase.build import bulk

    if name == "Si":
        return bulk("Si", cubic=True)
    if name == "Cu":
        return bulk("Cu", cubic=True)
    if name == "Fe":
        return bulk("Fe", cubic=True)
    if name == "NaCl":
        return bulk("NaCl", "rocksalt", a=5.64, cubic=True)
    if name == "Mg-hcp":
        return bulk("Mg")
    if name == "Mg-ortho":
        return bulk("Mg", orthorhombic=True)
    return ase.Atoms("SiC", scaled_positions=[(0, 0, 0), (0.5, 0.5, 0.5)], cell=[3.0, 4.0, 5.0], pbc=True)


def draw_scenario(ch):
    n = ch.range(2, 4, "n-thick")
    thick = [0.0] + [ch.pick([5.0, 20.0, 50.0, 123.4, 300.0], "thickness") for _ in range(n - 1)]
    if ch.bool(0.3, "zero-not-first"):
        thick = thick[1:] + [0.0]
    # a second thickness list of the same length and other values: both series are also computed together in one graph
    thick2 = [ch.pick([0.0, 7.0, 33.0, 80.0, 170.0, 240.0], "thickness-2") for _ in range(n)] if ch.bool(0.5, "joint") else None
    if thick2 == thick:
        thick2 = None
    return {"thicknesses2": thick2, "crystal": ch.pick(CRYSTALS, "crystal"), "g_max": ch.pick([2.0, 2.5, 1.5, 3.0], "g_max"), "sg_max": ch.pick([0.05, 0.1, 0.15], "sg_max"),
            "energy": ch.pick([80e3, 200e3, 300e3], "energy"), "rot": [ch.pick([0.0, 0.01, 0.03, -0.02], "rx"), ch.pick([0.0, 0.02, -0.01], "ry")],
            "thermal": ch.pick([0.0, 0.0, 0.08], "thermal"), "thicknesses": thick,
            "precision": "float64" if ch.bool(0.7, "float64") else "float32", "z_index": ch.range(0, n - 1, "z-index")}


def make_bloch(sc):
    from abtem.bloch import BlochWaves, StructureFactor

    atoms = make_atoms(sc["crystal"])
    sf = StructureFactor(atoms, g_max=sc["g_max"] * 2, thermal_sigma=sc["thermal"])
    bw = BlochWaves(structure_factor=sf, energy=sc["energy"], sg_max=sc["sg_max"], g_max=sc["g_max"])
    if any(sc["rot"]):
        bw = bw.rotate("x", sc["rot"][0], "y", sc["rot"][1])
    return bw, sf


def sig(sc, aspect, mode, extra=None):
    s = {"aspect": aspect, "mode": mode, "crystal": sc["crystal"], "rotated": any(sc["rot"]), "precision": sc["precision"]}
    if extra:
        s.update(extra)
    return s


def run_one(run):
    ch = run.ch
    sc = draw_scenario(ch)
    run.scenario = sc
    f64 = sc["precision"] == "float64"
    reset_process_state({"precision": sc["precision"]})
    # the z-dependent normalisation of the Bloch-wave coefficients conserves flux, not sum |psi_g|^2, exactly: deviations of
    # order g_z / K (1e-5 .. 3e-4 for the thicknesses used) are inherent to the formulation
    tol_sum = 1e-3 if f64 else 3e-3
    tol_path = 1e-3 if f64 else 3e-3
    try:
        bw, sf = make_bloch(sc)
        hkl = np.asarray(bw.hkl)
        nb = len(hkl)
        i0 = int(np.where(np.all(hkl == 0, axis=1))[0][0])
    except (HarnessError, InjectedCrash):
        raise
    except Exception as e:  # noqa: BLE001
        run.invalid = True
        run.note("construction_raised")
        sc["reference_error"] = f"{type(e).__name__}: {e} at {tb(e)}"[:300]
        return
    sc["n_beams"] = nb
    if nb > 350:
        # dense eigen-decompositions of > 350 beams take tens of seconds each (minutes on a loaded machine): outside the run budget
        run.invalid = True
        run.note("too_many_beams_skipped")
        return
    thick = sc["thicknesses"]

    def guard(f, mode):
        try:
            return f()
        except (HarnessError, InjectedCrash):
            raise
        except Exception as e:  # noqa: BLE001
            run.violate("calculation-succeeds", sig(sc, "raise", mode, {"exc": type(e).__name__}), f"{mode}: {type(e).__name__}: {e} at {tb(e)}")
            return None

    def check_intensities(arr, mode):
        arr = np.asarray(arr, dtype=float)
        if arr.shape != (len(thick), nb):
            run.violate("intensity-conserved", sig(sc, "shape", mode), f"{mode}: shape {arr.shape} != ({len(thick)}, {nb})")
            return False
        sums = arr.sum(axis=-1)
        if not np.all(np.abs(sums - 1.0) <= tol_sum) or (arr < -tol_sum).any():
            run.violate("intensity-conserved", sig(sc, "sum", mode), f"{mode}: intensities sum to {sums} at thicknesses {thick} ({nb} beams)")
            return False
        for j, z in enumerate(thick):
            if z == 0.0:
                want = np.zeros(nb)
                want[i0] = 1.0
                if not np.allclose(arr[j], want, atol=tol_sum):
                    run.violate("zero-thickness-direct-beam", sig(sc, "values", mode),
                                f"{mode}: at zero thickness the direct beam has {arr[j, i0]:.6g} and the largest other beam {np.delete(arr[j], i0).max():.3g}")
                    return False
        return True

    e = guard(lambda: bw.calculate_diffraction_patterns(thick, lazy=False), "eager")
    ea = None
    if e is not None:
        ea = oracle.to_numpy(e.array)
        check_intensities(ea, "eager")
    # ---- lazy under the simulator ---------------------------------------------------------------------------------------------
    sim = run.add_sim(Sim(ch, draw_sim_config(ch, light=True)))

    def lazy_run():
        b2, _ = make_bloch(sc)
        with sim:
            return sim.compute(b2.calculate_diffraction_patterns(thick, lazy=True))

    lz = guard(lazy_run, "lazy")
    sc["sim"] = sim.describe()
    if lz is not None:
        la = oracle.to_numpy(lz.array)
        if check_intensities(la, "lazy") and ea is not None:
            if la.shape != ea.shape or not np.allclose(la, ea, rtol=0, atol=1e-9 if f64 else 1e-5):
                run.violate("lazy-equals-eager", sig(sc, "values", "lazy"),
                            f"lazy differs from eager by {np.abs(la - ea).max() if la.shape == ea.shape else 'shape'}")
    # ---- two thickness series of the same crystal computed together in ONE graph (profiling schedule, then one task parked) ----------
    if sc["thicknesses2"] is not None and ea is not None:
        import dask

        t2 = sc["thicknesses2"]
        e2 = guard(lambda: make_bloch(sc)[0].calculate_diffraction_patterns(t2, lazy=False), "eager")
        if e2 is not None:
            e2a = oracle.to_numpy(e2.array)
            cands = 0
            for step in range(3):
                cfg = (park_profile_config(ch) if step == 0 else lockstep_config(ch) if step == 2 else
                       (park_config(ch, cands) if cands else draw_sim_config(ch, force_threads=True, write_preempt=True)))
                simj = run.add_sim(Sim(ch, cfg))

                def joint_run():
                    b3, _ = make_bloch(sc)
                    with simj:
                        la_ = b3.calculate_diffraction_patterns(thick, lazy=True)
                        lb_ = b3.calculate_diffraction_patterns(t2, lazy=True)
                        return dask.compute(la_.array, lb_.array, optimize_graph=simj.optimize_graph)

                res = guard(joint_run, "lazy-joint")
                if res is None:
                    break
                for name, got, want in (("first", res[0], ea), ("second", res[1], e2a)):
                    got = oracle.to_numpy(got)
                    if got.shape != want.shape or not np.allclose(got, want, rtol=0, atol=1e-9 if f64 else 1e-5):
                        run.violate("lazy-equals-eager", sig(sc, "values", "lazy-joint"),
                                    f"two thickness series ({thick} and {t2}) computed in one graph: the {name} differs from its eager result by "
                                    f"{np.abs(got - want).max() if got.shape == want.shape else 'shape'}")
                        break
                run.note("reach_joint_series")
                cands = simj.sched.stats.park_candidates
    # ---- matrix-exponential path ----------------------------------------------------------------------------------------------------
    z = thick[sc["z_index"]]
    sim2 = run.add_sim(Sim(ch, draw_sim_config(ch, light=True)))

    def expm_run():
        with sim2:  # the method computes an internal lazy structure matrix
            return make_bloch(sc)[0].calculate_scattering_matrix(z)

    S = guard(expm_run, "expm")
    if S is not None and ea is not None:
        S = np.asarray(S)
        if S.shape != (nb, nb):
            run.violate("expm-equals-eigen", sig(sc, "shape", "expm"), f"scattering matrix shape {S.shape} != ({nb}, {nb})")
        else:
            inten = np.abs(S[:, i0]) ** 2
            d = float(np.abs(inten - ea[sc["z_index"]]).max())
            if d > tol_path:
                run.violate("expm-equals-eigen", sig(sc, "values", "expm"),
                            f"|S({z})[:, 000]|^2 differs from the eigen-decomposition intensities by {d:.3g} (sum {inten.sum():.6g})")
    run.nontrivial = nb >= 2 and any(t > 0 for t in thick)
    run.note("beams", nb)
    if ea is not None:
        run.digest(np.round(ea, 6))
