"""C10 -- potential building and slice windows are consistent (DESIGN 3, C10)."""
from __future__ import annotations

import numpy as np

from simkit import oracle, scene
from simkit.errors import HarnessError, InjectedCrash
from simkit.sim import Sim, draw_sim_config, reset_process_state
from simkit.util import tb

from . import C11

PROPERTY = "C10"
LEVEL = "exploration"
BUDGET = {"quick": (640, 150), "thorough": (16000, 1500)}
RULE = ("seeded potential (Atoms / FrozenPhonons 1-4 configurations / AtomsEnsemble / built PotentialArray / CrystalPotential with and "
        "without a frozen-phonon unit; infinite and finite projection; scalar and explicit slice thicknesses; exit planes) and a drawn "
        "window [first, last). Subjects: build(lazy=False); build(lazy=True) computed by SimScheduler (blocks reordered / interleaved "
        "/ recomputed); build(first, last) in both modes; list(generate_slices(first, last)); a generator abandoned half-way followed "
        "by a full generation; a history of 2-4 windows (and full requests) answered by ONE object via generate_slices or build. Reference for ensemble member k: an independent single-configuration Potential built from "
        "list(frozen_phonons)[k]; for a crystal without phonons: the tiled unit potential. distinct = (scenario hash, schedule hash); "
        "non-trivial = an ensemble of >= 2 members or a proper sub-window")
ASSUMPTIONS = ["window semantics: slices first..last-1 of the full sequence, with their thicknesses and exit-plane flags",
               "CrystalPotential is always seeded (seeds=None is random by contract)"]
TECHNIQUE = "deterministic simulation: eager vs simulated-schedule lazy builds and slice windows vs independent per-member reference"
LEVEL_TEXT = "seeded search over potential kinds x windows x simulated dask schedules with an independent per-member reference"
LEVEL_NOTE = "sampled; trusts the single-configuration eager Potential build as reference"

warmup = C11.warmup


def draw_scenario(ch):
    knobs = {"precision": "float64" if ch.bool(0.5, "float64") else "float32", "fft": ch.pick(["numpy", "fftw"], "fft", weights=[3, 1])}
    pot = scene.draw_potential(ch, weights=[2, 4, 2, 2, 3], finite_p=0.2, exit_p=0.4)
    rep_z = pot.get("repetitions", [1, 1, 1])[2]
    ns = pot["num_slices"] * rep_z
    first = ch.range(0, ns - 1, "first")
    last = ch.range(first + 1, ns, "last")
    hist = []
    for _ in range(ch.range(2, 4, "n-history")):
        f = ch.range(0, ns - 1, "h-first")
        hist.append([f, ch.range(f + 1, ns, "h-last")] if ch.bool(0.75, "h-window") else [0, ns])
    return {"knobs": knobs, "potential": pot, "window": [first, last], "total_slices": ns,
            "abandon_after": ch.range(0, ns, "abandon"), "history": hist, "history_via": ch.pick(["generate_slices", "build"], "h-via")}


def sig(sc, aspect, mode, extra=None):
    p = sc["potential"]
    s = {"aspect": aspect, "mode": mode, "pot": p["kind"], "fp": "fp" in p, "projection": p["projection"],
         "window": "full" if sc["window"] == [0, sc["total_slices"]] else ("prefix" if sc["window"][0] == 0 else "inner")}
    if extra:
        s.update(extra)
    return s


def slices_record(slices):
    """(array, thickness, exit_planes) per generated slice"""
    out = []
    for s in slices:
        out.append((oracle.to_numpy(s.array), tuple(float(x) for x in s.slice_thickness), tuple(int(x) for x in s.exit_planes)))
    return out


def run_one(run):
    import abtem

    ch = run.ch
    sc = draw_scenario(ch)
    run.scenario = sc
    p = sc["potential"]
    knobs = sc["knobs"]
    rtol, atol = oracle.tol_for(knobs["precision"])
    reset_process_state({"precision": knobs["precision"], "fft": knobs["fft"], "fftw.planning_effort": "FFTW_ESTIMATE"})
    first, last = sc["window"]
    ns = sc["total_slices"]
    kind = p["kind"]

    def guard(f, clause, mode):
        try:
            return f()
        except (HarnessError, InjectedCrash):
            raise
        except Exception as e:  # noqa: BLE001
            run.violate(clause, sig(sc, "raise", mode, {"exc": type(e).__name__}), f"{mode}: {type(e).__name__}: {e} at {tb(e)}")
            return None

    # ---- independent reference for the full array ---------------------------------------------------------
    ref = None
    try:
        if kind in ("atoms", "array"):
            ref = scene.make_potential(p, atoms_override=scene.make_atoms(p["atoms"])).build(lazy=False).array
        elif kind in ("fp", "ensemble"):
            confs = list(scene.make_frozen_phonons(p["atoms"], p["fp"]))
            ref = np.stack([scene.make_potential(p, atoms_override=a).build(lazy=False).array for a in confs])
        elif kind == "crystal" and "fp" not in p:
            unit = scene.make_potential({**p, "kind": "atoms", "exit_planes": None}).build(lazy=False).array
            rx, ry, rz = p["repetitions"]
            ref = np.tile(unit, (rz, rx, ry))
    except (HarnessError, InjectedCrash):
        raise
    except Exception as e:  # noqa: BLE001
        run.invalid = True
        run.note("reference_raised")
        sc["reference_error"] = f"{type(e).__name__}: {e}"[:200]
        return
    ref = None if ref is None else oracle.to_numpy(ref)

    def cmp(name, mode, arr, want, clause):
        arr = oracle.to_numpy(arr)
        if arr.shape != want.shape:
            run.violate(clause, sig(sc, "shape", mode), f"{name}: shape {arr.shape} != {want.shape}")
            return False
        ok, d, s = oracle.close(arr, want, rtol, atol)
        if not ok:
            bad = ""
            if arr.ndim == 4:
                per = [float(np.abs(arr[k] - want[k]).max()) for k in range(arr.shape[0])]
                bad = f" per-member max diff {['%.2g' % x for x in per]}"
            run.violate(clause, sig(sc, "values", mode), f"{name}: max|diff|={d:.3g} scale={s:.3g}{bad}")
            return False
        return True

    full_e = None
    if kind != "array":
        # ---- full builds --------------------------------------------------------------------------------------
        e = guard(lambda: scene.make_potential(p).build(lazy=False), "build-succeeds", "eager")
        if e is not None:
            full_e = oracle.to_numpy(e.array)
            if ref is not None:
                cmp("eager build vs independent members", "eager", full_e, ref, "member-equals-independent")
            if tuple(e.slice_thickness) != tuple(scene.make_potential(p).slice_thickness):
                run.violate("window-bookkeeping", sig(sc, "thickness", "eager"), "built potential has different slice thicknesses")
        cfg = draw_sim_config(ch)
        sim = run.add_sim(Sim(ch, cfg))

        def lazy_full():
            with sim:
                return sim.compute(scene.make_potential(p).build(lazy=True))

        lz = guard(lazy_full, "build-succeeds", "lazy")
        sc["sim"] = sim.describe()
        if lz is not None:
            if ref is not None:
                cmp("lazy build vs independent members", "lazy", lz.array, ref, "member-equals-independent")
            if full_e is not None:
                cmp("lazy build vs eager build", "lazy", lz.array, full_e, "lazy-equals-eager")
        # ---- windowed builds ----------------------------------------------------------------------------------------
        base = ref if ref is not None else full_e
        if base is not None:
            want = base[..., first:last, :, :]
            we = guard(lambda: scene.make_potential(p).build(first, last, lazy=False), "window-build", "eager")
            if we is not None:
                cmp(f"build({first},{last}, eager)", "eager", we.array, want, "window-build")
                full_t = tuple(scene.make_potential(p).slice_thickness)
                if tuple(we.slice_thickness) != full_t[first:last]:
                    run.violate("window-bookkeeping", sig(sc, "thickness", "eager"),
                                f"build({first},{last}) slice_thickness {we.slice_thickness} != {full_t[first:last]}")
            if ch.bool(0.5, "lazy-window"):
                sim2 = run.add_sim(Sim(ch, draw_sim_config(ch, light=True)))

                def lazy_win():
                    with sim2:
                        return sim2.compute(scene.make_potential(p).build(first, last, lazy=True))

                wl = guard(lazy_win, "window-build", "lazy")
                if wl is not None:
                    cmp(f"build({first},{last}, lazy)", "lazy", wl.array, want, "window-build")

    # ---- slice generation: windows against the full sequence -------------------------------------------------------
    def single_member(pot):
        """generate_slices works on one configuration: take member 0 of an ensemble"""
        if kind in ("fp", "ensemble"):
            confs = list(scene.make_frozen_phonons(p["atoms"], p["fp"]))
            return scene.make_potential(p, atoms_override=confs[0])
        return pot

    full_seq = guard(lambda: slices_record(single_member(scene.make_potential(p)).generate_slices()), "generate-slices", "full")
    if full_seq is None:
        return
    if len(full_seq) != ns:
        run.violate("generate-slices", sig(sc, "count", "full"), f"full generation yields {len(full_seq)} slices, potential has {ns}")
        return
    base1 = None
    if ref is not None:
        base1 = ref[0] if ref.ndim == 4 else ref
    elif full_e is not None:
        base1 = full_e[0] if full_e.ndim == 4 else full_e
    if base1 is not None and not ("fp" in p and kind == "crystal"):
        got = np.concatenate([a for a, _, _ in full_seq])
        cmp("concatenated generate_slices()", "full", got, base1, "generate-slices")
    win = guard(lambda: slices_record(single_member(scene.make_potential(p)).generate_slices(first, last)), "generate-slices", "window")
    if win is not None:
        if len(win) != last - first:
            run.violate("generate-slices", sig(sc, "count", "window"),
                        f"generate_slices({first},{last}) yields {len(win)} slices, expected {last - first}")
        else:
            crystal_random = ("fp" in p and kind == "crystal")
            for j, ((a, t, ep), (fa, ft, fep)) in enumerate(zip(win, full_seq[first:last])):
                if t != ft:
                    run.violate("generate-slices", sig(sc, "thickness", "window"), f"window slice {j}: thickness {t} != {ft}")
                    break
                if ep != fep:
                    run.violate("generate-slices", sig(sc, "exit-flags", "window"),
                                f"generate_slices({first},{last}) slice {j} (global {first + j}): exit_planes {ep} != {fep} of the full sequence")
                    break
                if not cmp(f"generate_slices({first},{last}) slice {j}", "window", a, fa, "generate-slices"):
                    break
    # ---- a consumer that abandons the generator, then a full generation on the same object ----------------------------
    pot = single_member(scene.make_potential(p))

    def abandoned():
        g = pot.generate_slices()
        for _ in range(sc["abandon_after"]):
            next(g, None)
        del g
        return slices_record(pot.generate_slices())

    again = guard(abandoned, "generate-slices", "after-abandon")
    if again is not None:
        if len(again) != len(full_seq):
            run.violate("generate-slices", sig(sc, "count", "after-abandon"), f"{len(again)} != {len(full_seq)} slices")
        else:
            for j, ((a, t, ep), (fa, ft, fep)) in enumerate(zip(again, full_seq)):
                if t != ft or ep != fep or not oracle.close(a, fa, rtol, atol)[0]:
                    run.violate("generate-slices", sig(sc, "values", "after-abandon"),
                                f"slice {j} differs after a generator was abandoned at {sc['abandon_after']}")
                    break
    # ---- a history of windows requested from ONE object: each answer equals that of a fresh object ---------------------------------
    crystal_random = ("fp" in p and kind == "crystal")
    if not crystal_random:
        via = sc["history_via"] if kind != "array" else "generate_slices"
        hobj = single_member(scene.make_potential(p))
        for step, (f, l) in enumerate(sc["history"]):
            if via == "generate_slices":
                got = guard(lambda: slices_record(hobj.generate_slices(f, l)), "generate-slices", "history")
                if got is None:
                    break
                arrs = [a for a, _, _ in got]
                meta_ok = all((t, ep) == (ft, fep) for (_, t, ep), (_, ft, fep) in zip(got, full_seq[f:l]))
            else:
                b = guard(lambda: hobj.build(f, l, lazy=False), "window-build", "history")
                if b is None:
                    break
                ba = oracle.to_numpy(b.array)
                arrs = [ba[j:j + 1] for j in range(ba.shape[0])] if ba.ndim == 3 else None
                meta_ok = tuple(float(x) for x in b.slice_thickness) == tuple(t[0] for _, t, _ in full_seq[f:l])
            want_arrs = [fa for fa, _, _ in full_seq[f:l]]
            bad = None
            if arrs is None or len(arrs) != len(want_arrs):
                bad = f"{0 if arrs is None else len(arrs)} slices, expected {len(want_arrs)}"
            elif not meta_ok:
                bad = "slice thicknesses / exit-plane flags differ"
            else:
                for j, (a, fa) in enumerate(zip(arrs, want_arrs)):
                    if a.shape != fa.shape or not oracle.close(a, fa, rtol, atol)[0]:
                        bad = f"slice {f + j} differs (max|diff| {float(np.abs(a - fa).max()) if a.shape == fa.shape else 'shape'})"
                        break
            if bad:
                run.violate("generate-slices" if via == "generate_slices" else "window-build", sig(sc, "values", "history", {"via": via}),
                            f"window {step} [{f},{l}) of the history {sc['history']} requested from one object via {via}: {bad}; a fresh object "
                            f"answers correctly")
                break
        run.note("reach_window_history")
    n_members = p.get("fp", {}).get("num_configs", 1) if kind != "crystal" else (p.get("num_frozen_phonons") or 1)
    run.nontrivial = n_members >= 2 or (last - first) < ns
    if n_members >= 2:
        run.note("reach_multi_member")
    if (last - first) < ns:
        run.note("reach_proper_window")
    if first > 0:
        run.note("reach_inner_window")
    run.digest(full_seq[0][0])
