"""C17 -- simulation grids stay consistent through any history of edits (DESIGN 3, C17)."""
from __future__ import annotations

import math

import numpy as np

from simkit.errors import HarnessError, InjectedCrash
from simkit.interleave import CrashTracer, LineCounter
from simkit.sim import TRACE_ROOT, reset_process_state

PROPERTY = "C17"
LEVEL = "exploration"
BUDGET = {"quick": (30000, 120), "thorough": (1000000, 1500)}
RULE = ("history machine on abtem.core.grid.Grid: construct with drawn dimensions (1-2), endpoint flags, lock flags and any subset "
        "of extent/gpts/sampling, then 1-12 operations from {extent=, gpts=, sampling= with valid scalars/tuples (commensurate and "
        "incommensurate), invalid values (wrong length, zero / negative gpts, None), match / check_match with a second grid, copy, "
        "round_to_power}. After every operation (raised or not): a fully defined grid satisfies extent=(gpts-endpoint)*sampling and "
        "reciprocal sampling = 1/(gpts*sampling); a locked quantity that was defined keeps its value. Probe: InjectedCrash at an "
        "arbitrary line of a setter. distinct = hash of (constructor, op list); non-trivial = >= 2 ops on a fully defined grid")
ASSUMPTIONS = ["consistency tolerance 1e-9 relative; 'locked unchanged' uses the library's own np.allclose tolerance",
               "endpoint grids are generated with gpts >= 2 (a single point with endpoint has no sampling)",
               "NaN / infinite values and non-positive extent / sampling values are garbage-in and are not generated"]
TECHNIQUE = "deterministic simulation: seeded operation histories (incl. raising assignments) checked against invariants after every step"
LEVEL_TEXT = "seeded search over constructor x lock/endpoint combinations x bounded edit histories; invariants checked after every step"
LEVEL_NOTE = "sampled histories of length <= 12 over a small value vocabulary; invariants only (no full reference model of Grid)"


def warmup():
    import abtem  # noqa: F401


EXT = [10.0, 10.05, 4.0, 7.3, 12.5, 1.0]
SAMP = [0.1, 0.25, 0.05, 0.3, 0.07]
GPTS = [100, 50, 64, 33, 7, 2, 128]


def draw_value(ch, what, dims, valid=True):
    pool = {"extent": EXT, "sampling": SAMP, "gpts": GPTS}[what]
    if not valid:
        # non-positive lengths (extent / sampling) are garbage-in and are not generated; non-positive gpts are
        kind = ch.pick(["wrong-length", "none"] + (["zero", "negative"] if what == "gpts" else []), "invalid-kind")
        if kind == "wrong-length":
            return kind, [pool[0]] * (dims + 1)
        if kind == "zero":
            return kind, 0 if what == "gpts" else 0.0
        if kind == "negative":
            return kind, -pool[1]
        return kind, None
    if dims == 1 or ch.bool(0.5, "scalar"):
        return "scalar", ch.pick(pool, what)
    return "tuple", [ch.pick(pool, what) for _ in range(dims)]


def draw_program(ch):
    dims = ch.pick([2, 2, 1], "dims")
    endpoint = ch.pick([False, False, True, "mixed"], "endpoint")
    if endpoint == "mixed":
        endpoint = [True, False][:dims] if dims == 2 else [True]
    given = ch.pick(["extent+gpts", "extent+sampling", "gpts+sampling", "all", "extent", "gpts", "sampling", "none"], "given",
                    weights=[4, 4, 4, 1, 1, 1, 1, 1])
    ctor = {"dims": dims, "endpoint": endpoint, "lock_extent": ch.bool(0.3, "lock-extent"), "lock_gpts": ch.bool(0.3, "lock-gpts"),
            "lock_sampling": ch.bool(0.3, "lock-sampling")}
    for w in ("extent", "gpts", "sampling"):
        if w in given or given == "all":
            ctor[w] = draw_value(ch, w, dims)[1]
    if given == "all":  # make it consistent so that no overspecified warning path decides the test
        g = ctor["gpts"]
        e = ctor["extent"]
        gl = g if isinstance(g, list) else [g] * dims
        el = e if isinstance(e, list) else [e] * dims
        epl = endpoint if isinstance(endpoint, list) else [endpoint] * dims
        ctor["sampling"] = [x / (n - 1 if ep else n) for x, n, ep in zip(el, gl, epl)]
    ops = []
    for _ in range(ch.range(1, 12, "n-ops")):
        kind = ch.pick(["set", "set", "set", "set-invalid", "match", "check_match", "copy", "round"], "op",
                       weights=[5, 5, 5, 2, 1, 1, 1, 0.5])
        if kind in ("set", "set-invalid"):
            what = ch.pick(["extent", "gpts", "sampling"], "what")
            vk, v = draw_value(ch, what, dims, valid=(kind == "set"))
            ops.append({"op": "set", "what": what, "value": v, "vkind": vk})
        elif kind in ("match", "check_match"):
            other = {}
            for w in ("extent", "gpts", "sampling"):
                if ch.bool(0.5, "other-has"):
                    other[w] = draw_value(ch, w, dims)[1]
            if "extent" in other and "gpts" in other:
                other.pop("sampling", None)
            ops.append({"op": kind, "other": other})
        else:
            ops.append({"op": kind})
    return {"ctor": ctor, "ops": ops}


def tup(v):
    return tuple(v) if isinstance(v, list) else v


def make_grid(ctor):
    from abtem.core.grid import Grid

    ep = ctor["endpoint"]
    return Grid(extent=tup(ctor.get("extent")), gpts=tup(ctor.get("gpts")), sampling=tup(ctor.get("sampling")),
                dimensions=ctor["dims"], endpoint=tup(ep) if isinstance(ep, list) else ep,
                lock_extent=ctor["lock_extent"], lock_gpts=ctor["lock_gpts"], lock_sampling=ctor["lock_sampling"])


def fully_defined(g):
    return g.extent is not None and g.gpts is not None and g.sampling is not None


def check_invariants(run, g, prog, step, op, raised, locked_seen):
    locks = "+".join(k[5:] for k in ("lock_extent", "lock_gpts", "lock_sampling") if prog["ctor"][k]) or "none"
    ep_any = bool(np.any(g.endpoint))
    base = {"locks": locks, "endpoint": ep_any, "op": op_label(op), "raised": raised}
    # -- locks ---------------------------------------------------------------------------------------
    for name in ("extent", "gpts", "sampling"):
        if not prog["ctor"]["lock_" + name]:
            continue
        cur = getattr(g, name)
        if name in locked_seen:
            old = locked_seen[name]
            same = cur is not None and len(cur) == len(old) and np.allclose(cur, old)
            if not same:
                run.violate("locked-unchanged", {**base, "quantity": name},
                            f"step {step} {op}: locked {name} changed {old} -> {cur}")
                locked_seen[name] = cur if cur is not None else old
        elif cur is not None:
            locked_seen[name] = cur
    # -- consistency ------------------------------------------------------------------------------------
    if fully_defined(g):
        for d in range(g.dimensions):
            n = g.gpts[d] - 1 if g.endpoint[d] else g.gpts[d]
            want = n * g.sampling[d]
            if not math.isclose(g.extent[d], want, rel_tol=1e-9, abs_tol=1e-12):
                run.violate("extent-equals-gpts-times-sampling", base,
                            f"step {step} {op}: dim {d}: extent {g.extent[d]!r} != ({g.gpts[d]}{'-1' if g.endpoint[d] else ''}) x "
                            f"{g.sampling[d]!r} = {want!r}")
                return False
        if all(n > 0 for n in g.gpts) and all(s != 0 for s in g.sampling):
            try:
                rs = g.reciprocal_space_sampling
            except (HarnessError, InjectedCrash):
                raise
            except Exception as e:  # noqa: BLE001
                run.violate("reciprocal-sampling", {**base, "aspect": "raise"}, f"step {step}: reciprocal_space_sampling raised {e!r}")
                return False
            for d in range(g.dimensions):
                want = 1.0 / (g.gpts[d] * g.sampling[d])
                if not math.isclose(rs[d], want, rel_tol=1e-9):
                    run.violate("reciprocal-sampling", {**base, "aspect": "value"}, f"step {step}: {rs[d]!r} != {want!r}")
                    return False
        return True
    return None


def op_label(op):
    if op is None:
        return "construct"
    if op["op"] == "set":
        return f"set-{op['what']}" + ("" if op["vkind"] in ("scalar", "tuple") else "-" + op["vkind"])
    return op["op"]


def apply_op(g, op, dims):
    """returns (grid to continue with, raised?)"""
    from abtem.core.grid import Grid

    if op["op"] == "set":
        setattr(g, op["what"], tup(op["value"]))
    elif op["op"] in ("match", "check_match"):
        other = Grid(dimensions=dims, **{k: tup(v) for k, v in op["other"].items()})
        getattr(g, op["op"])(other)
    elif op["op"] == "copy":
        c = g.copy()
        if (c.extent, c.gpts, c.sampling) != (g.extent, g.gpts, g.sampling):
            raise AssertionError("copy differs")
        return c
    elif op["op"] == "round":
        if g.gpts is not None and all(n > 0 for n in g.gpts):
            g.round_to_power()
    return g


def run_one(run):
    ch = run.ch
    prog = draw_program(ch)
    run.scenario = prog
    crash_probe = ch.bool(0.1, "crash-probe")
    reset_process_state({"warnings.overspecified-grid": False})
    try:
        g = make_grid(prog["ctor"])
    except (HarnessError, InjectedCrash):
        raise
    except Exception as e:  # noqa: BLE001 - constructor refused the combination
        run.invalid = True
        run.note("constructor_raised")
        return
    locked_seen: dict = {}
    defined_steps = 0
    if check_invariants(run, g, prog, 0, None, False, locked_seen) is not None:
        defined_steps += 1
    if crash_probe:
        run.probe_run = True
    for i, op in enumerate(prog["ops"], 1):
        raised = False
        try:
            if crash_probe and op["op"] == "set":
                with LineCounter(TRACE_ROOT) as lc:
                    import copy as _c
                    try:
                        apply_op(_c.deepcopy(g), op, prog["ctor"]["dims"])
                    except Exception:  # noqa: BLE001
                        pass
                if lc.lines:
                    try:
                        with CrashTracer(TRACE_ROOT, 1 + ch.int(lc.lines, "crash-line")):
                            g = apply_op(g, op, prog["ctor"]["dims"])
                    except InjectedCrash as e:
                        run.note("crashes_injected")
                        raised = True
                else:
                    g = apply_op(g, op, prog["ctor"]["dims"])
            else:
                g = apply_op(g, op, prog["ctor"]["dims"])
        except (HarnessError, InjectedCrash):
            raise
        except Exception as e:  # noqa: BLE001 - assignments may legitimately raise
            raised = True
            run.note("ops_raised")
        nv = len(run.violations)
        r = check_invariants(run, g, prog, i, op, raised, locked_seen)
        if r is not None:
            defined_steps += 1
        if len(run.violations) > nv:
            break  # later steps would only re-report the consequences
        run.note("ops")
    run.nontrivial = defined_steps >= 2
