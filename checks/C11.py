"""C11 -- a potential reused after changing its grid behaves like a fresh one (DESIGN 3, C11)."""
from __future__ import annotations

import numpy as np

from simkit import oracle, scene
from simkit.errors import HarnessError, InjectedCrash
from simkit.sim import Sim, draw_sim_config, reset_process_state
from simkit.util import tb

PROPERTY = "C11"
LEVEL = "exploration"
BUDGET = {"quick": (640, 150), "thorough": (16000, 1500)}
RULE = ("history machine on one Potential (Atoms or FrozenPhonons source; infinite or finite projection; lobato/kirkland): 2-8 "
        "operations from {build eager, build lazy under SimScheduler (blocks share the integrator; reorder / interleave / recompute), "
        "gpts=, sampling=, multislice use, partial slice generation (abandoned generator), copy, a lazy build whose graph is computed only "
        "at the end of the history (it must describe the grid at build time)}. After every build / use the result "
        "must equal that of a freshly constructed potential with the current grid; an exception where the fresh one succeeds is a "
        "violation. distinct = (program hash, schedule hash); non-trivial = >= 1 grid change between two builds")
ASSUMPTIONS = ["the fresh potential is constructed with the reused object's current gpts (sampling then follows from the locked extent)",
               "values compared at rtol 1e-7 (float64) / 2e-4 (float32): both sides run the same arithmetic"]
TECHNIQUE = "deterministic simulation: seeded build / grid-change histories (lazy builds under simulated schedules) vs fresh-object reference"
LEVEL_TEXT = "seeded search over build / grid-change histories on shared integrator caches; every result compared with a fresh object"
LEVEL_NOTE = "bounded histories (<= 8 ops) over a small grid vocabulary; trusts a freshly constructed Potential as reference"

GPTS = [16, 12, 20, 15, [16, 20], [12, 9], 24]
SAMPLING = [0.25, 0.2, 0.3, [0.25, 0.2], 0.4]


def warmup():
    import abtem
    import ase

    for prec in ("float32", "float64"):
        reset_process_state({"precision": prec, "fft": "numpy"})
        atoms = ase.Atoms("SiC", positions=[(0, 0, 1), (2, 2, 3)], cell=[4, 4, 4], pbc=True)
        for proj in ("infinite", "finite"):
            pot = abtem.Potential(atoms, gpts=12, slice_thickness=2, projection=proj)
            abtem.PlaneWave(energy=100e3).multislice(pot, lazy=False)
    reset_process_state()


def draw_program(ch):
    knobs = {"precision": "float64" if ch.bool(0.6, "float64") else "float32", "fft": ch.pick(["numpy", "fftw"], "fft", weights=[3, 1])}
    atoms = scene.draw_atoms(ch, max_atoms=3)
    c = atoms["cell"][2]
    pot = {"atoms": atoms, "gpts": ch.pick(GPTS, "gpts0"), "slice_thickness": ch.pick([1.0, 2.0, c, 0.7], "slice"),
           "projection": "finite" if ch.bool(0.35, "finite") else "infinite",
           "parametrization": ch.pick(["lobato", "kirkland"], "param", weights=[3, 1])}
    if ch.bool(0.4, "fp"):
        pot["fp"] = {"num_configs": ch.range(1, 3, "fp-n"), "sigmas": 0.1, "directions": "xyz", "ensemble_mean": True,
                     "seed": ch.range(1, 100, "fp-seed")}
    ops = []
    n = ch.range(2, 8, "n-ops")
    for i in range(n):
        kind = ch.pick(["build", "build-lazy", "gpts", "sampling", "multislice", "partial", "copy", "build-lazy-deferred"], "op",
                       weights=[4, 3, 4, 2, 2, 1, 1, 1.5])
        op = {"op": kind}
        if kind == "gpts":
            op["value"] = ch.pick(GPTS, "gpts")
        elif kind == "sampling":
            op["value"] = ch.pick(SAMPLING, "sampling")
        elif kind == "partial":
            op["n"] = ch.range(1, 2, "partial-n")
        ops.append(op)
    if ops[-1]["op"] not in ("build", "build-lazy", "multislice"):
        ops.append({"op": ch.pick(["build", "build-lazy", "multislice"], "final")})
    return {"knobs": knobs, "potential": pot, "ops": ops}


def tupv(v):
    return tuple(v) if isinstance(v, list) else v


def make(pot, gpts):
    import abtem

    src = scene.make_frozen_phonons(pot["atoms"], pot["fp"]) if "fp" in pot else scene.make_atoms(pot["atoms"])
    return abtem.Potential(src, gpts=tupv(gpts), slice_thickness=pot["slice_thickness"], projection=pot["projection"],
                           parametrization=pot["parametrization"])


def run_one(run):
    import abtem

    ch = run.ch
    prog = draw_program(ch)
    run.scenario = prog
    knobs = prog["knobs"]
    rtol, atol = oracle.tol_for(knobs["precision"])
    reset_process_state({"precision": knobs["precision"], "fft": knobs["fft"], "fftw.planning_effort": "FFTW_ESTIMATE"})
    subject = make(prog["potential"], prog["potential"]["gpts"])
    grids_seen = [tuple(subject.gpts)]
    builds = 0
    deferred = []
    changed_between = False
    proj = prog["potential"]["projection"]

    def sig(aspect, op, extra=None):
        s = {"aspect": aspect, "op": op["op"], "projection": proj, "fp": "fp" in prog["potential"],
             "after_grid_change": len(set(grids_seen)) > 1}
        if extra:
            s.update(extra)
        return s

    for i, op in enumerate(prog["ops"]):
        kind = op["op"]
        try:
            if kind == "gpts":
                subject.gpts = tupv(op["value"])
                grids_seen.append(tuple(subject.gpts))
                continue
            if kind == "sampling":
                subject.sampling = tupv(op["value"])
                grids_seen.append(tuple(subject.gpts))
                continue
            if kind == "copy":
                subject = subject.copy()
                continue
            if kind == "build-lazy-deferred":
                # the graph is built now and computed only at the end of the history, after later grid changes / builds
                deferred.append((subject.build(lazy=True), list(subject.gpts), i))
                continue
            if kind == "partial":
                gen = subject.generate_slices()
                for _ in range(op["n"]):
                    next(gen, None)
                del gen  # consumer abandons the generator half-way
                continue
        except (HarnessError, InjectedCrash):
            raise
        except Exception as e:  # noqa: BLE001
            run.violate("reuse-equals-fresh", sig("raise", op, {"exc": type(e).__name__}),
                        f"op {i} {op} raised {type(e).__name__}: {e} at {tb(e)}")
            return
        # ---- build / use: compare with a fresh object on the current grid ---------------------------
        fresh = make(prog["potential"], list(subject.gpts))
        try:
            if kind == "multislice":
                ref = abtem.PlaneWave(energy=100e3).multislice(fresh, lazy=False)
            else:
                ref = fresh.build(lazy=False)
        except (HarnessError, InjectedCrash):
            raise
        except Exception as e:  # noqa: BLE001
            run.invalid = True
            run.note("reference_raised")
            return
        try:
            if kind == "build":
                sub = subject.build(lazy=False)
            elif kind == "multislice":
                sub = abtem.PlaneWave(energy=100e3).multislice(subject, lazy=False)
            else:
                cfg = draw_sim_config(ch, light=True)
                sim = run.add_sim(Sim(ch, cfg))
                with sim:
                    sub = sim.compute(subject.build(lazy=True))
                op["sim"] = sim.describe()
        except (HarnessError, InjectedCrash):
            raise
        except Exception as e:  # noqa: BLE001
            run.violate("reuse-equals-fresh", sig("raise", op, {"exc": type(e).__name__}),
                        f"op {i} {kind} on grid {subject.gpts} (history {grids_seen}) raised {type(e).__name__}: {e} at {tb(e)}; a fresh "
                        f"potential succeeds")
            return
        builds += 1
        ra, sa = oracle.to_numpy(ref.array), oracle.to_numpy(sub.array)
        if ra.shape != sa.shape:
            run.violate("reuse-equals-fresh", sig("shape", op), f"op {i} {kind}: shape {sa.shape} != fresh {ra.shape} (history {grids_seen})")
            return
        ok, d, s = oracle.close(sa, ra, rtol, atol)
        if not ok:
            run.violate("reuse-equals-fresh", sig("values", op),
                        f"op {i} {kind} on grid {subject.gpts} after history {grids_seen}: max|diff|={d:.3g} scale={s:.3g}")
            return
        if not np.allclose(sub.sampling, ref.sampling) or tuple(sub.gpts) != tuple(ref.gpts):
            run.violate("reuse-equals-fresh", sig("grid", op), f"op {i}: grid of result {sub.gpts}/{sub.sampling} != fresh {ref.gpts}/{ref.sampling}")
            return
        run.digest(ra)
    for lz, gp, i in deferred:
        try:
            ref = make(prog["potential"], gp).build(lazy=False)
            sim = run.add_sim(Sim(ch, draw_sim_config(ch, light=True)))
            with sim:
                sub = sim.compute(lz)
        except (HarnessError, InjectedCrash):
            raise
        except Exception as e:  # noqa: BLE001
            run.violate("reuse-equals-fresh", sig("raise", {"op": "build-lazy-deferred"}, {"exc": type(e).__name__}),
                        f"computing the lazy build of op {i} (grid {gp}) at the end of history {grids_seen} raised {type(e).__name__}: {e} at {tb(e)}")
            return
        builds += 1
        ra, sa = oracle.to_numpy(ref.array), oracle.to_numpy(sub.array)
        ok, d, s_ = oracle.close(sa, ra, rtol, atol) if ra.shape == sa.shape else (False, float("inf"), 0.0)
        if not ok:
            run.violate("reuse-equals-fresh", sig("values", {"op": "build-lazy-deferred"}),
                        f"lazy build made at op {i} on grid {gp} and computed after the history {grids_seen} differs from a fresh potential on that grid: "
                        f"shapes {sa.shape}/{ra.shape} max|diff|={d:.3g} scale={s_:.3g}")
            return
        run.note("deferred_builds")
    run.nontrivial = builds >= 2 and len(set(grids_seen)) > 1
    run.note("builds", builds)
    run.note("grid_changes", len(grids_seen) - 1)
    if proj == "finite":
        run.note("reach_finite")
