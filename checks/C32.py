"""C32 -- API calls do not modify caller-owned inputs (DESIGN 3, C32)."""
from __future__ import annotations

import copy

import numpy as np

from simkit import oracle
from simkit.errors import HarnessError, InjectedCrash
from simkit.sim import Sim, draw_sim_config, reset_process_state

PROPERTY = "C32"
LEVEL = "exploration"
BUDGET = {"quick": (1200, 150), "thorough": (40000, 1500)}
RULE = ("two scenario families. (atoms) a seeded ASE structure (orthogonal / hexagonal / monoclinic-like cells, atoms outside the cell, "
        "tiny off-diagonal cell entries, mixed pbc) passed to orthogonalize_cell, standardize_cell, Potential (+ eager / lazy build, also as "
        "a member of a list / AtomsEnsemble, "
        "lazy graph computed twice by SimScheduler in any order), FrozenPhonons (+ iteration), StructureFactor, BlochWaves; snapshot of "
        "positions, cell, numbers, pbc and per-atom arrays before, compared bitwise after. (measurement) a seeded Images / "
        "DiffractionPatterns / PolarMeasurements / RealSpaceLineProfiles (real or complex, 0-2 ensemble axes, eager or lazy over a "
        "caller-owned ndarray) and one method returning a new measurement (real, imag, phase, abs, intensity, interpolate, crop, "
        "gaussian_filter, tile, diffractograms, poisson_noise, integrate_radial, block_direct, bandlimit, ...); snapshot of the "
        "receiver's array bytes, the caller's ndarray, metadata and axes; lazy results are computed by SimScheduler (reorder / "
        "interleave / recompute) twice -- on their own, together with the receiver in one graph, or after the caller persisted the "
        "receiver's chunks (which must still hold their values afterwards). distinct = (scenario hash, schedule hash); non-trivial = the call returned without raising")
ASSUMPTIONS = ["a call that raises is still required to leave its inputs unchanged",
               "metadata compared by deep equality; arrays bitwise"]
TECHNIQUE = "deterministic simulation: before/after snapshots of caller-owned inputs around calls and simulated-schedule computes"
LEVEL_TEXT = "seeded search over structures / measurements x methods x evaluation modes, with bitwise before/after snapshots"
LEVEL_NOTE = "method argument tables are hand-written (methods without a table entry are not exercised); sampled"


def warmup():
    import abtem
    import ase

    reset_process_state({"precision": "float32", "fft": "numpy"})
    atoms = ase.Atoms("SiC", positions=[(0, 0, 1), (2, 2, 3)], cell=[4, 4, 4], pbc=True)
    abtem.Potential(atoms, gpts=12, slice_thickness=2).build(lazy=False)
    reset_process_state()


# ------------------------------------------------------------------------------------------------ atoms family ----
def draw_atoms_case(ch):
    cell_kind = ch.pick(["orthogonal", "hexagonal", "monoclinic", "tiny-offdiag"], "cell")
    n = ch.range(1, 5, "natoms")
    return {"family": "atoms", "cell_kind": cell_kind, "n": n, "seed": ch.subseed("atoms"), "outside": ch.bool(0.5, "outside"),
            "pbc": ch.pick([True, False, "mixed"], "pbc"), "extra_array": ch.bool(0.3, "extra-array"),
            "func": ch.pick(["orthogonalize_cell", "standardize_cell", "Potential", "Potential-lazy", "FrozenPhonons", "StructureFactor",
                             "BlochWaves", "Potential-list", "AtomsEnsemble"], "func")}


def make_atoms(c):
    import ase

    rng = np.random.default_rng(c["seed"])
    a = 3.0 + rng.random() * 2
    if c["cell_kind"] == "orthogonal":
        cell = np.diag([a, a + 1.0, 4.0])
    elif c["cell_kind"] == "hexagonal":
        cell = np.array([[a, 0, 0], [-a / 2, a * np.sqrt(3) / 2, 0], [0, 0, 4.0]])
    elif c["cell_kind"] == "monoclinic":
        cell = np.array([[a, 0, 0], [1.0, a + 0.5, 0], [0, 0, 5.0]])
    else:
        cell = np.diag([a, a, 4.0]) + 1e-9 * np.ones((3, 3))
    scaled = rng.random((c["n"], 3))
    if c["outside"]:
        scaled[0] += np.array([1.0, -1.0, 0.0])
        scaled[-1] += np.array([0.0, 2.0, 0.0])
    pos = scaled @ cell
    symbols = [["C", "Si", "O", "Cu"][i % 4] for i in range(c["n"])]
    pbc = [True, True, False] if c["pbc"] == "mixed" else c["pbc"]
    atoms = ase.Atoms(symbols, positions=pos, cell=cell, pbc=pbc)
    if c["extra_array"]:
        atoms.set_array("tag2", np.arange(c["n"], dtype=float))
    return atoms


def snap_atoms(atoms):
    return {"positions": atoms.positions.copy(), "cell": np.array(atoms.cell).copy(), "numbers": atoms.numbers.copy(),
            "pbc": np.array(atoms.pbc).copy(), "arrays": {k: v.copy() for k, v in atoms.arrays.items()}, "n": len(atoms)}


def diff_atoms(s, atoms):
    if len(atoms) != s["n"]:
        return "number of atoms"
    for k in ("positions", "cell", "numbers", "pbc"):
        cur = np.array(getattr(atoms, k) if k != "cell" else atoms.cell)
        if cur.shape != s[k].shape or not np.array_equal(cur, s[k]):
            return k
    if set(atoms.arrays) != set(s["arrays"]):
        return "arrays(keys)"
    for k, v in s["arrays"].items():
        if not np.array_equal(atoms.arrays[k], v):
            return f"arrays[{k}]"
    return None


def run_atoms(run, c):
    import abtem

    ch = run.ch
    atoms = make_atoms(c)
    s = snap_atoms(atoms)
    f = c["func"]
    raised = None
    try:
        if f == "orthogonalize_cell":
            abtem.orthogonalize_cell(atoms, max_repetitions=3)
        elif f == "standardize_cell":
            abtem.standardize_cell(atoms)
        elif f == "Potential":
            pot = abtem.Potential(atoms, gpts=(12, 16), slice_thickness=2.0)
            pot.build(lazy=False)
            list(pot.generate_slices())
        elif f == "Potential-lazy":
            pot = abtem.Potential(atoms, gpts=(12, 16), slice_thickness=2.0)
            lz = pot.build(lazy=True)
            for _ in range(2):
                sim = run.add_sim(Sim(ch, draw_sim_config(ch, light=True)))
                with sim:
                    lz.array.compute(optimize_graph=sim.optimize_graph)
            m = abtem.PlaneWave(energy=100e3).multislice(pot, lazy=True)
            sim = run.add_sim(Sim(ch, draw_sim_config(ch, light=True)))
            with sim:
                sim.compute(m)
        elif f in ("Potential-list", "AtomsEnsemble"):
            # the caller's Atoms objects as static ensemble members
            src = [atoms, atoms] if f == "Potential-list" else abtem.AtomsEnsemble([atoms])
            pot = abtem.Potential(src, gpts=(12, 16), slice_thickness=2.0)
            pot.build(lazy=False)
            sim = run.add_sim(Sim(ch, draw_sim_config(ch, light=True)))
            with sim:
                sim.compute(pot.build(lazy=True))
        elif f == "FrozenPhonons":
            fp = abtem.FrozenPhonons(atoms, 3, 0.1, seed=4)
            list(fp)
            fp.to_atoms_ensemble()
            abtem.Potential(fp, gpts=(12, 16), slice_thickness=2.0).build(lazy=False)
        elif f == "StructureFactor":
            from abtem.bloch import StructureFactor

            sf = StructureFactor(atoms, g_max=3.0)
            sf.calculate() if hasattr(sf, "calculate") else None
        elif f == "BlochWaves":
            from abtem.bloch import BlochWaves, StructureFactor

            sf = StructureFactor(atoms, g_max=3.0)
            bw = BlochWaves(structure_factor=sf, energy=100e3, sg_max=0.2)
            bw.calculate_diffraction_patterns([0.0, 10.0], lazy=False)
    except (HarnessError, InjectedCrash):
        raise
    except Exception as e:  # noqa: BLE001 - refusing a structure is fine; modifying it is not
        raised = e
        run.note("call_raised")
    d = diff_atoms(s, atoms)
    if d:
        run.violate("atoms-unchanged", {"func": f, "changed": d.split("[")[0], "cell": c["cell_kind"], "outside": c["outside"]},
                    f"{f}(atoms) changed the caller's {d}" + (f" (and raised {type(raised).__name__})" if raised else ""))
    run.nontrivial = raised is None


# ------------------------------------------------------------------------------------------- measurement family ----
METHODS = {
    "Images": ["abs", "real", "imag", "phase", "intensity", "interpolate-sampling", "interpolate-gpts", "interpolate-spline", "crop",
               "gaussian_filter", "tile", "diffractograms", "poisson_noise", "relative_difference", "normalize_ensemble",
               "reduce_ensemble", "mean", "sum", "std", "squeeze", "expand_dims", "interpolate_line", "getitem", "arith"],
    "DiffractionPatterns": ["abs", "intensity", "interpolate-sampling", "crop-dp", "gaussian_source_size", "integrate_radial",
                            "block_direct", "bandlimit", "center_of_mass", "integrated_center_of_mass", "polar_binning",
                            "radial_binning", "azimuthal_average", "poisson_noise", "tile_scan", "mean", "sum", "getitem", "arith",
                            "reduce_ensemble"],
    "PolarMeasurements": ["abs", "integrate_radial", "integrate", "poisson_noise", "mean", "getitem", "arith", "relative_difference"],
    "RealSpaceLineProfiles": ["abs", "real", "imag", "phase", "intensity", "interpolate-sampling", "tile-1d", "poisson_noise", "mean",
                              "getitem", "arith"],
}


def draw_meas_case(ch):
    t = ch.pick(list(METHODS), "type")
    method = ch.pick(METHODS[t], "method")
    complex_needed = method in ("real", "imag", "phase", "intensity")
    naxes = ch.pick([0, 1, 2, 2], "n-axes")
    if method in ("gaussian_source_size", "integrated_center_of_mass", "tile_scan"):
        naxes = 2
    ens = [ch.range(2, 4, "axis-len") for _ in range(naxes)]
    return {"family": "measurement", "type": t, "method": method, "complex": complex_needed or ch.bool(0.5 if method.startswith(("interpolate", "crop", "tile", "gaussian")) else 0.15, "complex"),
            "ensemble": ens, "seed": ch.subseed("data"), "lazy": ch.pick(["eager", "lazy", "lazy-chunked"], "laziness"),
            "precision": "float64" if ch.bool(0.4, "float64") else "float32"}


def make_measurement(c):
    import abtem.measurements as M
    from abtem.core.axes import ScanAxis

    rng = np.random.default_rng(c["seed"])
    base = {"Images": (12, 10), "DiffractionPatterns": (12, 12), "PolarMeasurements": (8, 4), "RealSpaceLineProfiles": (24,)}[c["type"]]
    shape = tuple(c["ensemble"]) + base
    real = "float64" if c["precision"] == "float64" else "float32"
    arr = rng.random(shape).astype(real)
    if c["complex"]:
        arr = (arr + 1j * rng.random(shape)).astype("complex128" if real == "float64" else "complex64")
    axes = [ScanAxis(label="xy"[i % 2], sampling=0.4, units="Å") for i in range(len(c["ensemble"]))]
    meta = {"energy": 100e3, "label": "original", "units": "original-units", "nested": {"k": [1, 2]}}
    t = c["type"]
    if t == "Images":
        m = M.Images(arr, sampling=(0.2, 0.25), ensemble_axes_metadata=axes, metadata=meta)
    elif t == "DiffractionPatterns":
        m = M.DiffractionPatterns(arr, sampling=0.05, fftshift=True, ensemble_axes_metadata=axes, metadata=meta)
    elif t == "PolarMeasurements":
        m = M.PolarMeasurements(arr, radial_sampling=5.0, azimuthal_sampling=np.pi / 2, ensemble_axes_metadata=axes, metadata=meta)
    else:
        m = M.RealSpaceLineProfiles(arr, sampling=0.1, ensemble_axes_metadata=axes, metadata=meta)
    if c["lazy"] == "lazy":
        m = m.ensure_lazy()
    elif c["lazy"] == "lazy-chunked":
        m = m.ensure_lazy(chunks=(1,) * len(c["ensemble"]) + tuple(-1 for _ in base)) if c["ensemble"] else m.ensure_lazy()
    return m, arr


def call_method(m, c):
    k = c["method"]
    if k in ("abs", "real", "imag", "phase", "intensity", "diffractograms", "reduce_ensemble", "center_of_mass",
             "integrated_center_of_mass", "azimuthal_average", "squeeze"):
        return getattr(m, k)()
    if k == "interpolate-sampling":
        return m.interpolate(sampling=0.1 if c["type"] != "DiffractionPatterns" else 0.04)
    if k == "interpolate-gpts":
        return m.interpolate(gpts=(16, 14))
    if k == "interpolate-spline":
        return m.interpolate(sampling=0.15, method="spline")
    if k == "crop":
        return m.crop(extent=(1.0, 1.2), offset=(0.2, 0.25))
    if k == "crop-dp":
        return m.crop(max_angle=10.0) if hasattr(m, "crop") else m.bandlimit(0.0, 10.0)
    if k == "gaussian_filter":
        return m.gaussian_filter(0.3)
    if k == "tile":
        return m.tile((2, 1))
    if k == "tile-1d":
        return m.tile(2) if hasattr(m, "tile") else m.abs()
    if k == "poisson_noise":
        return m.poisson_noise(total_dose=1e3, seed=3)
    if k == "relative_difference":
        return m.relative_difference(m.copy())
    if k == "normalize_ensemble":
        return m.normalize_ensemble()
    if k in ("mean", "sum", "std"):
        return getattr(m, k)(axis=0) if c["ensemble"] else getattr(m, "abs")()
    if k == "expand_dims":
        return m.expand_dims(axis=0)
    if k == "interpolate_line":
        return m.interpolate_line(start=(0.0, 0.0), end=(1.5, 1.0), gpts=10)
    if k == "getitem":
        return m[0] if c["ensemble"] else m.abs()
    if k == "arith":
        return (m * 2.0 + m) - 1.0
    if k == "gaussian_source_size":
        return m.gaussian_source_size(0.3)
    if k == "integrate_radial":
        return m.integrate_radial(0.0, 10.0)
    if k == "block_direct":
        return m.block_direct(radius=3.0)
    if k == "bandlimit":
        return m.bandlimit(2.0, 10.0)
    if k == "polar_binning":
        return m.polar_binning(2, 4, 0.0, 10.0)
    if k == "radial_binning":
        return m.radial_binning(step_size=2.0)
    if k == "tile_scan":
        return m.tile_scan((2, 1))
    if k == "integrate":
        return m.integrate(radial_limits=(0.0, 20.0))
    raise HarnessError(f"no argument recipe for {k}")


def run_measurement(run, c):
    ch = run.ch
    reset_process_state({"precision": c["precision"]})
    m, arr = make_measurement(c)
    arr0 = arr.copy()
    meta0 = copy.deepcopy(dict(m.metadata))
    axes0 = [oracle.axis_record(a) for a in m.axes_metadata]
    raised = None
    seen_receiver = []
    # how a lazy receiver's chunks meet the derived result: computed on their own; in ONE graph with the result (any order); or
    # persisted by the caller before the call and read again afterwards
    mode = ch.pick(["plain", "joint", "persisted"], "receiver-mode") if c["lazy"] != "eager" else "plain"
    c["receiver_mode"] = mode
    try:
        import dask

        if mode == "persisted":
            m._array = m.array.persist(scheduler="synchronous")
        out = call_method(m, c)
        outs = out if isinstance(out, (list, tuple)) else [out]
        for o in outs:
            if hasattr(o, "is_lazy") and o.is_lazy:
                for _ in range(2):
                    sim = run.add_sim(Sim(ch, draw_sim_config(ch, light=True)))
                    with sim:
                        if mode == "joint" and m.is_lazy:
                            got = dask.compute(m.array, o.array, optimize_graph=sim.optimize_graph)[0]
                            seen_receiver.append(np.asarray(got))
                        else:
                            o.array.compute(optimize_graph=sim.optimize_graph)
        if mode == "persisted" and m.is_lazy:
            seen_receiver.append(np.asarray(m.array.compute(scheduler="synchronous")))
    except (HarnessError, InjectedCrash):
        raise
    except Exception as e:  # noqa: BLE001
        raised = e
        run.note("call_raised")
        run.scenario["raised"] = f"{type(e).__name__}: {e}"[:160]
    sigb = {"type": c["type"], "method": c["method"].split("-")[0], "lazy": c["lazy"] != "eager"}
    if not np.array_equal(arr, arr0):
        run.violate("receiver-unchanged", {**sigb, "changed": "caller-ndarray"}, f"{c['type']}.{c['method']} modified the caller-owned ndarray "
                    f"behind the receiver (max diff {np.abs(arr.astype(complex) - arr0.astype(complex)).max():.3g})")
    for got in seen_receiver:
        if got.shape != arr0.shape or not np.array_equal(got, arr0):
            run.violate("receiver-unchanged", {**sigb, "changed": "lazy-chunks", "receiver_mode": mode},
                        f"{c['type']}.{c['method']}: the lazy receiver, {'computed together with the result' if mode == 'joint' else 'persisted before the call and read after the result was computed'}, "
                        f"no longer holds its values (max diff {np.abs(got.astype(complex) - arr0.astype(complex)).max() if got.shape == arr0.shape else 'shape'})")
            break
    if seen_receiver:
        run.note("reach_receiver_" + mode)
    cur = m.array if not m.is_lazy else None
    if cur is not None and not np.array_equal(np.asarray(cur), arr0):
        run.violate("receiver-unchanged", {**sigb, "changed": "array"}, f"{c['type']}.{c['method']} changed the receiver's array")
    if m.is_lazy != (c["lazy"] != "eager"):
        run.violate("receiver-unchanged", {**sigb, "changed": "laziness"}, f"{c['type']}.{c['method']} turned the lazy receiver eager (or vice versa)")
    if not oracle.values_equal(dict(m.metadata), meta0):
        ch_keys = sorted(k for k in set(meta0) | set(m.metadata) if not oracle.values_equal(meta0.get(k), dict(m.metadata).get(k)))
        run.violate("receiver-unchanged", {**sigb, "changed": "metadata"},
                    f"{c['type']}.{c['method']} changed the receiver's metadata keys {ch_keys}: {meta0} -> {dict(m.metadata)}"[:500])
    axes1 = [oracle.axis_record(a) for a in m.axes_metadata]
    if axes1 != axes0:
        run.violate("receiver-unchanged", {**sigb, "changed": "axes"}, f"{c['type']}.{c['method']} changed the receiver's axes metadata")
    run.nontrivial = raised is None


def run_one(run):
    ch = run.ch
    if ch.bool(0.35, "atoms-family"):
        c = draw_atoms_case(ch)
        run.scenario = c
        reset_process_state()
        run_atoms(run, c)
    else:
        c = draw_meas_case(ch)
        run.scenario = c
        run_measurement(run, c)
