"""C16 -- measurement resampling and source-size filtering conserve what they promise (DESIGN 3, C16)."""
from __future__ import annotations

import numpy as np

from simkit import oracle
from simkit.errors import HarnessError, InjectedCrash
from simkit.sim import Sim, draw_sim_config, reset_process_state
from simkit.util import tb

PROPERTY = "C16"
LEVEL = "exploration"
BUDGET = {"quick": (1600, 150), "thorough": (60000, 1500)}
RULE = ("seeded Images / DiffractionPatterns ensembles (0-2 scan axes + optional extra ensemble axis, non-negative random data), eager and "
        "lazy with drawn scan-axis chunkings (single block, one position per block, uneven; including chunks narrower than the "
        "map_overlap halo of the Gaussian source filter). Clauses: DiffractionPatterns.interpolate (scalar or 'uniform' sampling, gpts) "
        "preserves each pattern's sum; Images.interpolate(method='fft') at the same grid is the identity and otherwise preserves the "
        "mean; gaussian_source_size(sigma) then integrate_radial = integrate_radial then gaussian_filter(sigma); each lazy result "
        "computed by SimScheduler (reorder / interleave / recompute) = the eager one. distinct = (scenario hash, schedule hash); "
        "non-trivial = >= 2 blocks or a genuine resampling")
ASSUMPTIONS = ["sums / means compared at rtol 1e-6 (float64) / 1e-3 (float32): FFT-based resampling is exact up to rounding",
               "the commutation clause uses periodic boundaries on both sides (the documented equivalence) and rtol 1e-6 / 2e-3"]
TECHNIQUE = "deterministic simulation: seeded chunkings / halo widths under simulated schedules vs eager results and conservation identities"
LEVEL_TEXT = "seeded search over measurement ensembles x resampling targets x sigmas x chunkings x simulated schedules"
LEVEL_NOTE = "sampled; identities are checked numerically with stated tolerances"


def warmup():
    import abtem  # noqa: F401
    from abtem.measurements import DiffractionPatterns, Images

    reset_process_state({"precision": "float64"})
    a = np.random.default_rng(0).random((3, 3, 8, 8))
    from abtem.core.axes import ScanAxis

    ax = [ScanAxis(label="x", sampling=0.5, units="Å"), ScanAxis(label="y", sampling=0.5, units="Å")]
    d = DiffractionPatterns(a, sampling=0.05, fftshift=True, ensemble_axes_metadata=ax, metadata={"energy": 100e3})
    d.gaussian_source_size(0.4).integrate_radial(0.0, 5.0)
    d.interpolate(sampling=0.04)
    Images(a, sampling=0.2, ensemble_axes_metadata=ax).interpolate(sampling=0.1)
    reset_process_state()


def draw_scenario(ch):
    clause = ch.pick(["dp-interpolate", "image-interpolate", "source-size"], "clause")
    sc = {"clause": clause, "precision": "float64" if ch.bool(0.6, "float64") else "float32", "seed": ch.subseed("data"),
          "lazy_chunks": ch.pick(["single", "ones", "uneven"], "chunks")}
    if clause == "source-size":
        sc.update(scan=[ch.range(2, 6, "sx"), ch.range(2, 6, "sy")], base=[ch.pick([8, 12], "bx"), ch.pick([8, 10], "by")],
                  scan_sampling=[ch.pick([0.3, 0.5], "ssx"), ch.pick([0.3, 0.4], "ssy")],
                  sigma=ch.pick([0.2, 0.5, 1.0, [0.3, 0.8]], "sigma"), extra=ch.pick([0, 2], "extra"),
                  sampling=[0.2, 0.2], inner=ch.pick([0.0, 6.0], "inner"), outer=ch.pick([14.0, 20.0], "outer"))
    elif clause == "dp-interpolate":
        sc.update(scan=[ch.range(1, 4, "sx")] if ch.bool(0.6, "has-scan") else [], base=[ch.pick([8, 12, 9], "bx"), ch.pick([8, 10, 16], "by")],
                  sampling=[ch.pick([0.05, 0.08], "dsx"), ch.pick([0.05, 0.04], "dsy")],
                  target=ch.pick(["uniform", "scalar-fine", "scalar-coarse", "gpts"], "target"))
    else:
        sc.update(scan=[ch.range(1, 4, "sx")] if ch.bool(0.6, "has-scan") else [], base=[ch.pick([8, 12, 9], "bx"), ch.pick([8, 10, 15], "by")],
                  sampling=[ch.pick([0.2, 0.25], "isx"), ch.pick([0.2, 0.1], "isy")],
                  target=ch.pick(["same", "finer", "coarser", "gpts"], "target"))
    return sc


def make(sc, lazy):
    import abtem.measurements as M
    from abtem.core.axes import OrdinalAxis, ScanAxis

    rng = np.random.default_rng(sc["seed"])
    extra = sc.get("extra", 0)
    shape = ((extra,) if extra else ()) + tuple(sc["scan"]) + tuple(sc["base"])
    arr = rng.random(shape).astype(sc["precision"])
    axes = [OrdinalAxis(label="e", values=tuple(float(i) for i in range(extra)))] if extra else []
    ss = sc.get("scan_sampling", [0.5, 0.5])
    axes += [ScanAxis(label="xy"[i], sampling=ss[i], units="Å") for i in range(len(sc["scan"]))]
    if sc["clause"] == "image-interpolate":
        m = M.Images(arr, sampling=tuple(sc["sampling"]), ensemble_axes_metadata=axes)
    else:
        m = M.DiffractionPatterns(arr, sampling=tuple(sc.get("sampling", (0.05, 0.05))), fftshift=True, ensemble_axes_metadata=axes,
                                  metadata={"energy": 100e3})
    if lazy:
        chunks = []
        for n in ((extra,) if extra else ()) + tuple(sc["scan"]):
            if sc["lazy_chunks"] == "single" or n == 1:
                chunks.append((n,))
            elif sc["lazy_chunks"] == "ones":
                chunks.append((1,) * n)
            else:
                chunks.append((n - 1, 1))
        chunks += [(n,) for n in sc["base"]]
        m = m.ensure_lazy(chunks=tuple(chunks))
    return m, arr


def sig(sc, aspect, mode, extra=None):
    s = {"aspect": aspect, "mode": mode, "clause": sc["clause"], "target": sc.get("target"), "chunks": sc["lazy_chunks"] if mode == "lazy" else None}
    if extra:
        s.update(extra)
    return s


def run_one(run):
    ch = run.ch
    sc = draw_scenario(ch)
    run.scenario = sc
    f64 = sc["precision"] == "float64"
    reset_process_state({"precision": sc["precision"]})
    cons_tol = 1e-6 if f64 else 1e-3
    same_tol = (1e-9, 1e-12) if f64 else (2e-4, 1e-6)

    def apply(m):
        c = sc["clause"]
        if c == "dp-interpolate":
            t = sc["target"]
            if t == "uniform":
                return m.interpolate(sampling="uniform")
            if t == "scalar-fine":
                return m.interpolate(sampling=0.03)
            if t == "scalar-coarse":
                return m.interpolate(sampling=0.09)
            return m.interpolate(gpts=(sc["base"][0] + 3, sc["base"][1] + 2))
        if c == "image-interpolate":
            t = sc["target"]
            if t == "same":
                return m.interpolate(sampling=tuple(sc["sampling"]), method="fft")
            if t == "finer":
                return m.interpolate(sampling=0.08, method="fft")
            if t == "coarser":
                return m.interpolate(sampling=0.33, method="fft")
            return m.interpolate(gpts=(sc["base"][0] + 5, sc["base"][1] + 1), method="fft")
        s = sc["sigma"]
        s = tuple(s) if isinstance(s, list) else s
        return m.gaussian_source_size(s).integrate_radial(sc["inner"], sc["outer"])

    def guard(f, mode):
        try:
            return f()
        except (HarnessError, InjectedCrash):
            raise
        except Exception as e:  # noqa: BLE001
            return e

    m, arr = make(sc, lazy=False)
    e = guard(lambda: apply(m), "eager")
    if isinstance(e, Exception):
        run.invalid = True
        run.note("reference_raised")
        sc["reference_error"] = f"{type(e).__name__}: {e} at {tb(e)}"[:300]
        return
    ea = oracle.to_numpy(e.array)
    nb = len(sc["base"])
    # ---- conservation identities on the eager result --------------------------------------------------------------------
    if sc["clause"] == "dp-interpolate":
        s0 = arr.astype(float).sum(axis=(-2, -1))
        s1 = ea.astype(float).sum(axis=(-2, -1))
        if s0.shape != s1.shape or not np.allclose(s1, s0, rtol=cons_tol, atol=0):
            run.violate("dp-interpolate-preserves-sum", sig(sc, "sum", "eager"),
                        f"pattern sums change by up to {np.max(np.abs(s1 - s0) / s0):.3g} (relative) for target {sc['target']}, "
                        f"{sc['base']} @ {sc['sampling']} -> {ea.shape[-2:]} @ {e.sampling}")
    elif sc["clause"] == "image-interpolate":
        if sc["target"] == "same":
            if ea.shape != arr.shape or not np.allclose(ea, arr, rtol=0, atol=(1e-10 if f64 else 1e-5)):
                run.violate("image-interpolate-identity", sig(sc, "values", "eager"),
                            f"fft interpolation to the same grid is not the identity: shape {ea.shape} vs {arr.shape}, max diff "
                            f"{np.max(np.abs(ea - arr)) if ea.shape == arr.shape else 'n/a'}")
        m0 = arr.astype(float).mean(axis=(-2, -1))
        m1 = ea.astype(float).mean(axis=(-2, -1))
        if m0.shape != m1.shape or not np.allclose(m1, m0, rtol=cons_tol, atol=0):
            run.violate("image-interpolate-preserves-mean", sig(sc, "mean", "eager"),
                        f"image means change by up to {np.max(np.abs(m1 - m0) / m0):.3g} (relative) for target {sc['target']}")
    else:
        # documented commutation: source size before integration = integration then the same Gaussian filter
        other = guard(lambda: make(sc, lazy=False)[0].integrate_radial(sc["inner"], sc["outer"]).gaussian_filter(
            tuple(sc["sigma"]) if isinstance(sc["sigma"], list) else sc["sigma"], boundary="periodic"), "eager")
        if isinstance(other, Exception):
            run.violate("source-size-commutes", sig(sc, "raise", "eager", {"exc": type(other).__name__}),
                        f"integrate_radial().gaussian_filter() raised {type(other).__name__}: {other} at {tb(other)}")
        else:
            oa = oracle.to_numpy(other.array)
            ok, d, s = oracle.close(ea, oa, 1e-6 if f64 else 2e-3, 1e-12) if ea.shape == oa.shape else (False, float("inf"), 0.0)
            if not ok:
                run.violate("source-size-commutes", sig(sc, "values", "eager"),
                            f"gaussian_source_size({sc['sigma']}).integrate_radial != integrate_radial.gaussian_filter: shapes {ea.shape}/{oa.shape} "
                            f"max|diff|={d:.3g} scale={s:.3g}")
    # ---- lazy under the simulator = eager ---------------------------------------------------------------------------------
    sim = run.add_sim(Sim(ch, draw_sim_config(ch, light=True)))

    def lazy_run():
        ml, _ = make(sc, lazy=True)
        with sim:
            return sim.compute(apply(ml))

    lz = guard(lazy_run, "lazy")
    sc["sim"] = sim.describe()
    if isinstance(lz, Exception):
        run.violate("lazy-equals-eager", sig(sc, "raise", "lazy", {"exc": type(lz).__name__}), f"lazy raised {type(lz).__name__}: {lz} at {tb(lz)}")
    else:
        la = oracle.to_numpy(lz.array)
        if la.shape != ea.shape:
            run.violate("lazy-equals-eager", sig(sc, "shape", "lazy"), f"lazy shape {la.shape} != eager {ea.shape}")
        else:
            ok, d, s = oracle.close(la, ea, *same_tol)
            if not ok:
                run.violate("lazy-equals-eager", sig(sc, "values", "lazy"),
                            f"lazy ({sc['lazy_chunks']} chunks, {sim.describe()['workers']} workers) differs from eager: max|diff|={d:.3g} scale={s:.3g}")
            mx = oracle.axes_equal(e.axes_metadata, lz.axes_metadata)
            if mx:
                run.violate("lazy-equals-eager", sig(sc, "axes", "lazy"), mx)
    nblocks = 1 if sc["lazy_chunks"] == "single" else 2
    run.nontrivial = nblocks > 1 or sc.get("target") not in (None, "same")
    if sc["clause"] == "source-size" and sc["lazy_chunks"] == "ones":
        run.note("reach_halo_wider_than_chunk")
    run.digest(ea)
