"""C06 -- PRISM reduction reproduces conventional multislice probes (DESIGN 3, C06)."""
from __future__ import annotations

import numpy as np

from simkit import oracle, scene
from simkit.errors import HarnessError, InjectedCrash
from simkit.sim import Sim, draw_sim_config, park_config, park_profile_config, reset_process_state
from simkit.util import tb

from . import C01

PROPERTY = "C06"
LEVEL = "exploration"
BUDGET = {"quick": (320, 170), "thorough": (8000, 1700)}
RULE = ("seeded SMatrix(interpolation=1, downsample=False) over no potential / Atoms / FrozenPhonons (1-3 configurations), reduced at drawn "
        "positions (CustomScan / GridScan / LineScan) with a drawn CTF including aberrations (defocus, C30, C12+phi12, C21+phi21) and "
        "detectors; reference: Probe(same aperture and aberrations).scan through the same potential (eager). Subjects: eager "
        "SMatrix.scan; lazy SMatrix.scan with drawn max_batch_multislice / max_batch_reduction computed by SimScheduler. With "
        "half of the interpolation-1 runs also build ONE lazy S-matrix and compute 2-3 reductions of it (two CTFs, two scans) in one graph, "
        "first under a profiling multi-worker schedule, then with one task parked at a shared store; each against its own Probe reference. "
        "With interpolation 2-3 (repeated cell): lazy = eager only (the cropped-window equivalence is not derived here). "
        "distinct = (scenario hash, schedule hash); non-trivial = a potential or aberrations are present")
ASSUMPTIONS = ["PRISM and multislice are different algorithms: values compared at rtol 1e-5 (float64) / 5e-4 (float32) of the result scale",
               "the interpolation>1 clause 'reduced probes equal cropped-window probes' is only checked as lazy = eager"]
TECHNIQUE = "deterministic simulation: PRISM (eager and simulated-schedule lazy) vs conventional multislice reference"
LEVEL_TEXT = "seeded search over S-matrix scenes x CTFs x scans x detectors x simulated schedules with a multislice reference"
LEVEL_NOTE = "sampled; cross-algorithm tolerance; trusts the eager Probe multislice"

warmup = C01.warmup


def draw_scenario(ch):
    knobs = scene.draw_knobs(ch)
    interp = ch.pick([1, 1, 1, 2, 3], "interpolation")
    kind = ch.pick(["none", "atoms", "fp"], "pot-kind", weights=[1, 3, 2])
    atoms = scene.draw_atoms(ch, max_atoms=3)
    c = atoms["cell"][2]
    g = ch.pick([12, 16, 18], "gpts-unit")
    pot = {"kind": kind, "atoms": atoms, "gpts": [g * interp, g * interp], "slice_thickness": ch.pick([1.0, 2.0, c], "slice"),
           "projection": "infinite", "parametrization": "lobato", "exit_planes": None, "repeat": interp}
    if kind == "fp":
        pot["fp"] = scene.draw_frozen_phonons(ch, 3)
    energy = ch.pick([100e3, 80e3, 200e3], "energy")
    ext = [atoms["cell"][0] * interp, atoms["cell"][1] * interp]
    kmax = min(pot["gpts"][0] / ext[0], pot["gpts"][1] / ext[1]) / 2.0
    amax = kmax * (2.0 / 3.0) * scene.wavelength(energy) * 1e3
    cutoff = round(min(ch.pick([20.0, 12.0, 30.0], "cutoff"), 0.8 * amax), 3)
    ab = {}
    if ch.bool(0.7, "aberrations?"):
        for name, vals in (("defocus", [30.0, -50.0, 100.0]), ("C30", [1e4, -2e4]), ("C12", [20.0, 50.0]), ("C21", [200.0, 500.0])):
            if ch.bool(0.45, "ab-" + name):
                ab[name] = ch.pick(vals, "ab-val")
        if "C12" in ab:
            ab["phi12"] = ch.pick([0.5, 1.2], "phi12")
        if "C21" in ab:
            ab["phi21"] = ch.pick([0.3, 2.0], "phi21")
    scan = scene.draw_scan(ch, ext, kinds=("custom", "grid", "line"))
    dets = scene.draw_detectors(ch, amax, max_n=2)
    # session on ONE lazy S-matrix: 2-3 reductions (CTFs from {drawn, second}; two scans) computed in one graph
    joint = None
    if interp == 1 and ch.bool(0.45, "joint-reductions"):
        ab2 = {"defocus": ch.pick([-80.0, 60.0, 15.0], "ab2-defocus")}
        if ch.bool(0.5, "ab2-C30"):
            ab2["C30"] = ch.pick([5e3, -1e4], "ab2-C30-val")
        scan2 = scene.draw_scan(ch, ext, kinds=("custom", "line"))
        joint = {"aberrations2": ab2, "scan2": scan2,
                 "reductions": [[ch.pick([0, 1], "red-ctf"), ch.pick([0, 1], "red-scan")] for _ in range(ch.range(2, 3, "n-reductions"))]}
    return {"knobs": knobs, "interpolation": interp, "potential": pot, "energy": energy, "cutoff": cutoff, "aberrations": ab, "joint": joint,
            "scan": scan, "detectors": dets, "extent": ext,
            "mb_multislice": ch.pick(["auto", 1, 3, 7], "mb-multislice"), "mb_reduction": ch.pick(["auto", 1, 2, 5], "mb-reduction")}


def make_pot(sc):
    import abtem

    p = sc["potential"]
    if p["kind"] == "none":
        return None
    atoms = scene.make_atoms(p["atoms"]) * (p["repeat"], p["repeat"], 1)
    src = atoms
    if p["kind"] == "fp":
        f = p["fp"]
        src = abtem.FrozenPhonons(atoms, num_configs=f["num_configs"], sigmas=f["sigmas"], directions=f["directions"],
                                  ensemble_mean=f["ensemble_mean"], seed=f["seed"])
    return abtem.Potential(src, gpts=tuple(p["gpts"]), slice_thickness=p["slice_thickness"])


def run_prism(sc, lazy):
    import abtem

    pot = make_pot(sc)
    kw = dict(potential=pot) if pot is not None else dict(extent=tuple(sc["extent"]), gpts=tuple(sc["potential"]["gpts"]))
    s = abtem.SMatrix(semiangle_cutoff=sc["cutoff"], energy=sc["energy"], interpolation=sc["interpolation"], downsample=False, **kw)
    ctf = abtem.CTF(semiangle_cutoff=sc["cutoff"], energy=sc["energy"], **sc["aberrations"]) if sc["aberrations"] else None
    return s.scan(scan=scene.make_scan(sc["scan"]), detectors=scene.make_detectors(sc["detectors"]), ctf=ctf, lazy=lazy,
                  max_batch_multislice=sc["mb_multislice"], max_batch_reduction=sc["mb_reduction"])


def run_reference(sc):
    import abtem

    pot = make_pot(sc)
    probe = abtem.Probe(semiangle_cutoff=sc["cutoff"], energy=sc["energy"], **sc["aberrations"])
    scan = scene.make_scan(sc["scan"])
    dets = scene.make_detectors(sc["detectors"])
    if pot is None:
        probe = abtem.Probe(semiangle_cutoff=sc["cutoff"], energy=sc["energy"], extent=tuple(sc["extent"]), gpts=tuple(sc["potential"]["gpts"]),
                            **sc["aberrations"])
        w = probe.build(scan=scan, lazy=False)
        dl = dets if isinstance(dets, list) else [dets]
        out = [d.detect(w) for d in dl]
        return out if len(out) > 1 else out[0]
    return probe.scan(pot, scan=scan, detectors=dets, lazy=False)


def window_tie(sc) -> bool:
    """interpolation > 1: the cropped window of a probe starts at rint(position / sampling - window // 2).  A position that sits
    exactly half-way between two pixels is a rounding tie: the full scan and a block of it compute that position with different
    last bits and may pick neighbouring, equally valid windows, so lazy and eager outputs live on windows shifted by one pixel.
    The property does not pin the window ("the equivalent cropped-window probes"); such scenes are not compared."""
    if sc["interpolation"] == 1:
        return False
    import numpy as np

    pos = np.asarray(scene.make_scan(sc["scan"]).get_positions(), dtype=float).reshape(-1, 2)
    samp = np.array([sc["extent"][0] / sc["potential"]["gpts"][0], sc["extent"][1] / sc["potential"]["gpts"][1]])
    frac = np.mod(pos / samp, 1.0)
    return bool((np.abs(frac - 0.5) < 1e-6).any())


def sig(sc, aspect, mode, extra=None):
    s = {"aspect": aspect, "mode": mode, "pot": sc["potential"]["kind"], "aberrations": bool(sc["aberrations"]),
         "ensemble_mean": sc["potential"].get("fp", {}).get("ensemble_mean"),
         "interpolation": sc["interpolation"] > 1, "dets": "+".join(sorted({d["kind"] for d in sc["detectors"]}))}
    if extra:
        s.update(extra)
    return s


def as_list(x):
    return list(x) if isinstance(x, (list, tuple)) else [x]


def run_one(run):
    ch = run.ch
    sc = draw_scenario(ch)
    run.scenario = sc
    knobs = sc["knobs"]
    f64 = knobs["precision"] == "float64"
    rtol, atol = (1e-5, 1e-10) if f64 else (5e-4, 1e-6)
    reset_process_state(scene.knob_overrides(knobs, sc["potential"]["gpts"]))
    ref = None
    if sc["interpolation"] == 1:
        try:
            ref = run_reference(sc)
        except (HarnessError, InjectedCrash):
            raise
        except Exception as e:  # noqa: BLE001
            run.invalid = True
            run.note("reference_raised")
            sc["reference_error"] = f"{type(e).__name__}: {e} at {tb(e)}"[:300]
            return

    def compare(a, b, clause, mode, tol):
        al, bl = as_list(a), as_list(b)
        if len(al) != len(bl):
            run.violate(clause, sig(sc, "count", mode), f"{len(al)} outputs vs {len(bl)}")
            return
        for i, (x, y) in enumerate(zip(al, bl)):
            xa, ya = oracle.to_numpy(x.array), oracle.to_numpy(y.array)
            if type(x) is not type(y):
                run.violate(clause, sig(sc, "type", mode), f"out{i}: {type(x).__name__} vs {type(y).__name__}")
                continue
            if xa.shape != ya.shape:
                run.violate(clause, sig(sc, "shape", mode), f"out{i}: shape {xa.shape} vs {ya.shape}")
                continue
            ok, d, s = oracle.close(xa, ya, tol[0], tol[1])
            if not ok:
                run.violate(clause, sig(sc, "values", mode), f"out{i} ({type(x).__name__}): max|diff|={d:.3g} scale={s:.3g} rtol={tol[0]:g}")

    eager = None
    try:
        eager = run_prism(sc, lazy=False)
        if ref is not None:
            compare(eager, ref, "prism-equals-multislice", "eager", (rtol, atol))
    except (HarnessError, InjectedCrash):
        raise
    except Exception as e:  # noqa: BLE001
        run.violate("prism-succeeds", sig(sc, "raise", "eager", {"exc": type(e).__name__}), f"eager SMatrix.scan raised {type(e).__name__}: {e} at {tb(e)}")
    sim = run.add_sim(Sim(ch, draw_sim_config(ch)))
    try:
        with sim:
            lz = sim.compute(run_prism(sc, lazy=True))
        sc["sim"] = sim.describe()
        if ref is not None:
            compare(lz, ref, "prism-equals-multislice", "lazy", (rtol, atol))
        if eager is not None and not window_tie(sc):
            same_tol = oracle.tol_for(knobs["precision"])
            compare(lz, eager, "lazy-equals-eager", "lazy", (max(same_tol[0], 1e-6), same_tol[1]))
        elif eager is not None:
            run.note("window_rounding_tie_not_compared")
    except (HarnessError, InjectedCrash):
        raise
    except Exception as e:  # noqa: BLE001
        run.violate("prism-succeeds", sig(sc, "raise", "lazy", {"exc": type(e).__name__}), f"lazy SMatrix.scan raised {type(e).__name__}: {e} at {tb(e)}")
    # ---- several reductions of ONE lazy S-matrix computed together (a focal series / several scans), each against its own reference ----
    if sc.get("joint"):
        import abtem
        import dask

        j = sc["joint"]
        abs_ = [sc["aberrations"], j["aberrations2"]]
        scans = [sc["scan"], j["scan2"]]
        same_tol = oracle.tol_for(knobs["precision"])
        try:
            refs = []
            for ci, si in j["reductions"]:
                refs.append(run_reference({**sc, "aberrations": abs_[ci], "scan": scans[si]}))
        except (HarnessError, InjectedCrash):
            raise
        except Exception:  # noqa: BLE001
            refs = None
        if refs is not None:
            cands = 0
            for step in range(2):
                cfg = park_profile_config(ch) if step == 0 else (park_config(ch, cands) if cands else draw_sim_config(ch, force_threads=True, write_preempt=True))
                simj = run.add_sim(Sim(ch, cfg))
                try:
                    with simj:
                        pot = make_pot(sc)
                        kw = dict(potential=pot) if pot is not None else dict(extent=tuple(sc["extent"]), gpts=tuple(sc["potential"]["gpts"]))
                        sa = abtem.SMatrix(semiangle_cutoff=sc["cutoff"], energy=sc["energy"], interpolation=1, downsample=False, **kw).build(lazy=True)
                        outs = []
                        for ci, si in j["reductions"]:
                            ctf = abtem.CTF(semiangle_cutoff=sc["cutoff"], energy=sc["energy"], **abs_[ci]) if abs_[ci] else None
                            outs.append(as_list(sa.reduce(scan=scene.make_scan(scans[si]), detectors=scene.make_detectors(sc["detectors"]), ctf=ctf,
                                                          max_batch_reduction=sc["mb_reduction"])))
                        flat = [o for ol in outs for o in ol]
                        arrays = dask.compute(*[o.array for o in flat], optimize_graph=simj.optimize_graph)
                    for o, a in zip(flat, arrays):
                        o._array = a
                    for k, (ol, r) in enumerate(zip(outs, refs)):
                        compare(ol if len(ol) > 1 else ol[0], r, "prism-equals-multislice", "lazy-joint", (max(rtol, same_tol[0]), atol))
                    run.note("reach_joint_reductions")
                except (HarnessError, InjectedCrash):
                    raise
                except Exception as e:  # noqa: BLE001
                    run.violate("prism-succeeds", sig(sc, "raise", "lazy-joint", {"exc": type(e).__name__}),
                                f"{len(j['reductions'])} reductions of one lazy S-matrix computed together raised {type(e).__name__}: {e} at {tb(e)}")
                    break
                cands = simj.sched.stats.park_candidates
    run.nontrivial = sc["potential"]["kind"] != "none" or bool(sc["aberrations"])
    if sc["aberrations"]:
        run.note("reach_aberrations")
    if sc["interpolation"] > 1:
        run.note("reach_interpolation")
    if eager is not None:
        run.digest(oracle.to_numpy(as_list(eager)[0].array))
