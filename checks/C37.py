"""C37 -- real-space multislice is a faithful discretization (DESIGN 3, C37)."""
from __future__ import annotations

import numpy as np

from simkit import oracle, scene
from simkit.errors import HarnessError, InjectedCrash
from simkit.sim import Sim, draw_sim_config, reset_process_state
from simkit.util import tb

PROPERTY = "C37"
LEVEL = "exploration"
BUDGET = {"quick": (96, 150), "thorough": (4000, 1700)}
RULE = ("four scenario families. (lazy) RealSpaceMultislice runs (order 1-2, derivative accuracy 2/4/6, expansion scope propagator/full) of a "
        "PlaneWave / Probe through a small potential, eager vs lazy computed by SimScheduler (reorder / interleave / recompute; blocks "
        "share the LaplaceOperator of one task). (history) one LaplaceOperator applied to a drawn sequence of waves with different "
        "sampling / energy / shape must equal a fresh operator at every step. (vacuum) real-space propagation of a band-limited wave "
        "through vacuum preserves the total intensity. (eigen) the Laplacian of a discrete periodic plane wave equals the wave times the "
        "stencil's analytic eigenvalue sum_axes (1/d^2) sum_j c_j cos(2 pi k j / n) -- an input-only clause sampled by the same generator. "
        "distinct = (scenario hash, schedule hash); non-trivial = always (every family compares computed values)")
ASSUMPTIONS = ["stencil coefficients are held in complex64 by the library: eigenvalue / history clauses use rtol 2e-5; lazy = eager uses 1e-6 "
               "(float64) / 2e-4 (float32)", "vacuum intensity preserved within 1e-3 relative (truncated exponential series)"]
TECHNIQUE = "deterministic simulation: lazy real-space multislice under simulated schedules, operator-reuse histories, analytic eigenvalue oracle"
LEVEL_TEXT = "seeded search over algorithms x grids x histories x simulated schedules; analytic and fresh-object references"
LEVEL_NOTE = "sampled; each new stencil is JIT-compiled (seconds), so runs are fewer than for other properties"


def warmup():
    import abtem  # noqa: F401
    from abtem.finite_difference import LaplaceOperator  # noqa: F401


def draw_scenario(ch):
    fam = ch.pick(["lazy", "history", "vacuum", "eigen"], "family", weights=[3, 2, 2, 3])
    sc = {"family": fam, "precision": "float64" if ch.bool(0.6, "float64") else "float32", "accuracy": ch.pick([2, 4, 6], "accuracy")}
    if fam in ("eigen", "history"):
        sc["accuracy"] = ch.pick([2, 4, 6, 8, 10, 12, 14], "accuracy-wide")
    if fam == "lazy":
        sc.update(order=ch.pick([1, 2], "order"), scope=ch.pick(["propagator", "full"], "scope"),
                  potential=scene.draw_potential(ch, kinds=("atoms", "fp"), weights=[2, 1], finite_p=0.0, exit_p=0.0, max_configs=2),
                  builder=ch.pick(["planewave", "probe"], "builder"), energy=ch.pick([100e3, 200e3], "energy"), scan_n=ch.range(1, 3, "scan-n"),
                  max_batch=ch.pick(["auto", 1, 2], "max-batch"))
        # every multislice task compiles its own numba stencil (seconds each): keep the number of blocks x configurations <= 3
        if "fp" in sc["potential"] and sc["potential"]["fp"]["num_configs"] > 1:
            sc["scan_n"] = 1
        if sc["max_batch"] == 1 and sc["scan_n"] == 3:
            sc["scan_n"] = 2
        sc["potential"]["gpts"] = [ch.pick([12, 16], "gx"), ch.pick([12, 16, 14], "gy")]
        sc["potential"]["slice_thickness"] = ch.pick([1.0, 2.0], "slice")
    elif fam == "history":
        sc["steps"] = [{"gpts": [ch.pick([16, 12], "gx"), ch.pick([16, 18], "gy")], "sampling": ch.pick([0.1, 0.2, [0.1, 0.1], [0.2, 0.2], 0.15, 0.1004, [0.1003, 0.0997], [0.2, 0.1]], "samp"),
                        "energy": ch.pick([100e3, 200e3], "energy"), "seed": ch.subseed("w")} for _ in range(ch.range(2, 3, "n-steps"))]
    elif fam == "vacuum":
        sc.update(gpts=[ch.pick([16, 24], "gx"), ch.pick([16, 20], "gy")], sampling=ch.pick([0.1, 0.2], "samp"), energy=ch.pick([100e3, 300e3], "energy"),
                  thickness=ch.pick([1.0, 2.0, 5.0], "dz"), nslices=ch.range(1, 3, "nslices"), order=ch.pick([1, 2], "order"), kmax_frac=ch.pick([0.2, 0.4], "kfrac"),
                  seed=ch.subseed("w"))
    else:
        sc.update(gpts=[ch.pick([16, 12, 17, 20], "gx"), ch.pick([16, 18, 15], "gy")], sampling=ch.pick([0.1, 0.2, 0.25, [0.1, 0.2], [0.25, 0.1]], "samp"),
                  k=[ch.range(-3, 3, "kx"), ch.range(-3, 3, "ky")], batch=ch.pick([0, 2], "batch"))
    return sc


def tup(v, n=2):
    return tuple(v) if isinstance(v, list) else (v,) * n


def central_second_derivative_weights(accuracy):
    """centred finite-difference weights of the second derivative, derived here (Taylor / Vandermonde system in exact
    rational arithmetic), independently of the library's coefficient table"""
    from fractions import Fraction

    m = accuracy // 2
    offs = list(range(-m, m + 1))
    nn = len(offs)
    # sum_j w_j j^p / p! = delta_{p,2}  for p = 0 .. 2m
    A = [[Fraction(o) ** p for o in offs] for p in range(nn)]
    b = [Fraction(0)] * nn
    b[2] = Fraction(2)
    for col in range(nn):  # Gauss-Jordan
        piv = next(r for r in range(col, nn) if A[r][col] != 0)
        A[col], A[piv] = A[piv], A[col]
        b[col], b[piv] = b[piv], b[col]
        inv = 1 / A[col][col]
        A[col] = [x * inv for x in A[col]]
        b[col] *= inv
        for r in range(nn):
            if r != col and A[r][col] != 0:
                f = A[r][col]
                A[r] = [x - f * y for x, y in zip(A[r], A[col])]
                b[r] -= f * b[col]
    return np.array([float(x) for x in b])


def fd_eigenvalue(accuracy, k, n, d):
    c = central_second_derivative_weights(accuracy)
    m = len(c) // 2
    j = np.arange(-m, m + 1)
    return float(np.sum(c * np.cos(2 * np.pi * k * j / n))) / d**2


def sig(sc, aspect, extra=None):
    s = {"aspect": aspect, "family": sc["family"], "accuracy": sc["accuracy"]}
    if extra:
        s.update(extra)
    return s


def run_one(run):
    import abtem
    from abtem.finite_difference import LaplaceOperator
    from abtem.multislice import RealSpaceMultislice

    ch = run.ch
    sc = draw_scenario(ch)
    run.scenario = sc
    f64 = sc["precision"] == "float64"
    reset_process_state({"precision": sc["precision"], "fft": "numpy"})
    cdt = "complex128" if f64 else "complex64"
    fam = sc["family"]
    run.nontrivial = True

    if fam == "eigen":
        nx, ny = sc["gpts"]
        sx, sy = tup(sc["sampling"])
        kx, ky = sc["k"]
        x = np.arange(nx)[:, None]
        y = np.arange(ny)[None, :]
        wave = np.exp(2j * np.pi * (kx * x / nx + ky * y / ny)).astype(cdt)
        if sc["batch"]:
            wave = np.stack([wave] * sc["batch"])
        from abtem.core.axes import OrdinalAxis

        axes = [OrdinalAxis(label="b", values=tuple(float(i) for i in range(sc["batch"])))] if sc["batch"] else []
        w = abtem.Waves(wave.copy(), energy=100e3, sampling=(sx, sy), ensemble_axes_metadata=axes)
        try:
            out = LaplaceOperator(sc["accuracy"]).apply(w).array
        except (HarnessError, InjectedCrash):
            raise
        except Exception as e:  # noqa: BLE001
            run.violate("laplacian-eigenvalue", sig(sc, "raise", {"exc": type(e).__name__}), f"LaplaceOperator.apply raised {type(e).__name__}: {e} at {tb(e)}")
            return
        lam = fd_eigenvalue(sc["accuracy"], kx, nx, sx) + fd_eigenvalue(sc["accuracy"], ky, ny, sy)
        want = lam * wave
        scale = max(abs(fd_eigenvalue(sc["accuracy"], nx // 2, nx, sx)) + abs(fd_eigenvalue(sc["accuracy"], ny // 2, ny, sy)), 1e-30)
        d = float(np.max(np.abs(np.asarray(out) - want)))
        if d > 2e-5 * scale:
            run.violate("laplacian-eigenvalue", sig(sc, "values", {"square_sampling": sx == sy}),
                        f"Laplacian of the plane wave k=({kx},{ky}) on {nx}x{ny} @ ({sx},{sy}): max|out - lambda*wave| = {d:.4g} with lambda = {lam:.6g} "
                        f"(stencil scale {scale:.4g}); out/wave at origin = {np.asarray(out).reshape(-1, nx, ny)[0, 0, 0]:.6g}")
        run.digest(np.round(want.real, 6))
        return

    if fam == "history":
        op = LaplaceOperator(sc["accuracy"])
        for i, st in enumerate(sc["steps"]):
            rng = np.random.default_rng(st["seed"])
            arr = (rng.standard_normal(st["gpts"]) + 1j * rng.standard_normal(st["gpts"])).astype(cdt)
            smp = tup(st["sampling"])
            try:
                a = op.apply(abtem.Waves(arr.copy(), energy=st["energy"], sampling=smp)).array
                b = LaplaceOperator(sc["accuracy"]).apply(abtem.Waves(arr.copy(), energy=st["energy"], sampling=smp)).array
            except (HarnessError, InjectedCrash):
                raise
            except Exception as e:  # noqa: BLE001
                run.violate("operator-reuse-equals-fresh", sig(sc, "raise", {"exc": type(e).__name__}), f"step {i}: {type(e).__name__}: {e} at {tb(e)}")
                return
            ok, d, s = oracle.close(np.asarray(a), np.asarray(b), 1e-6, 1e-12)
            if not ok:
                run.violate("operator-reuse-equals-fresh", sig(sc, "values"),
                            f"step {i} (sampling {smp}, energy {st['energy']}, history {[(x['sampling'], x['energy']) for x in sc['steps'][:i]]}): reused "
                            f"operator differs from a fresh one by {d:.3g} (scale {s:.3g})")
                return
        run.note("history_steps", len(sc["steps"]))
        return

    if fam == "vacuum":
        nx, ny = sc["gpts"]
        s = sc["sampling"]
        rng = np.random.default_rng(sc["seed"])
        kx = np.fft.fftfreq(nx, s)[:, None]
        ky = np.fft.fftfreq(ny, s)[None, :]
        kmax = sc["kmax_frac"] * 0.5 / s
        spec = (rng.standard_normal((nx, ny)) + 1j * rng.standard_normal((nx, ny))) * ((kx**2 + ky**2) <= kmax**2)
        arr = np.fft.ifft2(spec).astype(cdt)
        w = abtem.Waves(arr.copy(), energy=sc["energy"], sampling=s)
        vac = abtem.PotentialArray(np.zeros((sc["nslices"], nx, ny), dtype="float64" if f64 else "float32"), slice_thickness=sc["thickness"], sampling=s)
        try:
            out = w.multislice(vac, algorithm=RealSpaceMultislice(order=sc["order"], derivative_accuracy=sc["accuracy"]))
        except (HarnessError, InjectedCrash):
            raise
        except Exception as e:  # noqa: BLE001
            if type(e).__name__ in ("DivergedError", "NotConvergedError"):
                # the exponential series is only conditionally stable (slice thickness vs sampling^2 / wavelength): the library
                # refuses such a step with a dedicated error instead of returning a wrong wave -- not a violation
                run.invalid = True
                run.note("vacuum_step_refused_as_unstable")
                return
            run.violate("vacuum-preserves-intensity", sig(sc, "raise", {"exc": type(e).__name__}), f"{type(e).__name__}: {e} at {tb(e)}")
            return
        i0 = float((np.abs(arr) ** 2).sum())
        i1 = float((np.abs(np.asarray(out.array)) ** 2).sum())
        if not abs(i1 - i0) <= 1e-3 * i0:
            run.violate("vacuum-preserves-intensity", sig(sc, "values", {"order": sc["order"]}),
                        f"intensity {i0:.8g} -> {i1:.8g} after {sc['nslices']} x {sc['thickness']} A of vacuum (rel. change {(i1 - i0) / i0:.3g})")
        run.digest(np.round(np.abs(arr), 6))
        return

    # ---- family 'lazy': real-space multislice lazily (under the simulator) = eagerly ----------------------------------------------
    alg = RealSpaceMultislice(order=sc["order"], expansion_scope=sc["scope"], derivative_accuracy=sc["accuracy"])
    p = sc["potential"]

    def pipeline(lazy):
        pot = scene.make_potential(p)
        if sc["builder"] == "planewave":
            return abtem.PlaneWave(energy=sc["energy"]).multislice(pot, algorithm=alg, lazy=lazy, max_batch=sc["max_batch"])
        rng = np.random.default_rng(7)
        scan = abtem.CustomScan(rng.random((sc["scan_n"], 2)) * np.array(scene.potential_extent(p)))
        amax = scene.max_valid_angle(p, sc["energy"])
        return abtem.Probe(energy=sc["energy"], semiangle_cutoff=round(0.6 * amax, 3)).multislice(pot, scan=scan, algorithm=alg, lazy=lazy,
                                                                                                  max_batch=sc["max_batch"])
    try:
        ref = pipeline(False)
    except (HarnessError, InjectedCrash):
        raise
    except Exception as e:  # noqa: BLE001
        run.invalid = True
        run.note("reference_raised")
        sc["reference_error"] = f"{type(e).__name__}: {e} at {tb(e)}"[:300]
        return
    sim = run.add_sim(Sim(ch, draw_sim_config(ch, light=True)))
    try:
        with sim:
            lz = sim.compute(pipeline(True))
        sc["sim"] = sim.describe()
    except (HarnessError, InjectedCrash):
        raise
    except Exception as e:  # noqa: BLE001
        run.violate("lazy-equals-eager", sig(sc, "raise", {"exc": type(e).__name__}), f"lazy raised {type(e).__name__}: {e} at {tb(e)}; eager succeeded")
        return
    rtol, atol = oracle.tol_for(sc["precision"])
    for aspect, msg in oracle.compare_results(ref, lz, max(rtol, 1e-6), atol):
        if aspect == "dtype":
            run.note("dtype_differs")
            continue
        run.violate("lazy-equals-eager", sig(sc, aspect, {"scope": sc["scope"]}), msg)
    run.digest(np.round(np.abs(oracle.to_numpy(ref.array)), 5))
