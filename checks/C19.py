"""C19 -- ensemble partitioning reassembles every member exactly once (DESIGN 3, C19)."""
from __future__ import annotations

import numpy as np

from simkit import oracle
from simkit.errors import HarnessError, InjectedCrash
from simkit.sim import Sim, draw_sim_config, reset_process_state
from simkit.util import tb

PROPERTY = "C19"
LEVEL = "exploration"
BUDGET = {"quick": (1600, 150), "thorough": (60000, 1500)}
RULE = ("seeded ensemble of one kind {GridScan, LineScan, CustomScan, FrozenPhonons, AtomsEnsemble, CTF / Aberrations / Aperture with 1-2 "
        "distributions, Probe with distributions + scan, Waves / Images with 1-3 ensemble axes (eager and lazy)} and a drawn valid chunking "
        "(a random composition of every ensemble dimension: single block, size-1 blocks, uneven). Eager: generate_blocks(chunks); lazy: "
        "ensemble_blocks(chunks) computed by SimScheduler (blocks delivered in any order, recomputed). Blocks are placed by the chunk "
        "ranges derived independently from the drawn chunking; oracle: the reassembled members (positions, values, weights, seeds, "
        "atom positions, array values) and the concatenated values of ordinal axes equal the originals in order, each exactly once; the "
        "blocks' shapes are the drawn chunks; lazy = eager. distinct = (scenario hash, schedule hash); non-trivial = >= 2 blocks")
ASSUMPTIONS = ["scan positions recomputed per block are compared to 1e-12 (relative 1e-9): GridScan recomputes block starts in floating point",
               "everything else is compared exactly"]
TECHNIQUE = "deterministic simulation: seeded chunkings, lazy blocks delivered by simulated schedules, reassembly vs original members"
LEVEL_TEXT = "seeded search over ensemble kinds x chunkings x simulated block delivery orders; exact reassembly oracle"
LEVEL_NOTE = "sampled; member extraction functions per ensemble kind are hand-written"

KINDS = ["GridScan", "LineScan", "CustomScan", "FrozenPhonons", "AtomsEnsemble", "CTF", "Aberrations", "Aperture", "Probe", "Waves", "Images"]


def warmup():
    import abtem  # noqa: F401


def composition(ch, n):
    kind = ch.pick(["all", "ones", "random"], "chunk-kind")
    if kind == "all" or n == 1:
        return [n]
    if kind == "ones":
        return [1] * n
    parts, left = [], n
    while left > 0:
        k = ch.range(1, left, "chunk-part")
        parts.append(k)
        left -= k
    return parts


def draw_scenario(ch):
    kind = ch.pick(KINDS, "kind")
    sc = {"kind": kind, "seed": ch.subseed("seed")}
    if kind == "GridScan":
        sc.update(gpts=[ch.range(1, 6, "nx"), ch.range(1, 6, "ny")], start=[0.0, 0.5], end=[ch.pick([3.0, 4.7], "ex"), ch.pick([2.0, 5.1], "ey")],
                  endpoint=ch.bool(0.4, "endpoint"))
        if sc["endpoint"]:
            sc["gpts"] = [max(2, g) for g in sc["gpts"]]
        shape = sc["gpts"]
    elif kind == "LineScan":
        sc.update(gpts=ch.range(2, 9, "n"), start=[0.0, 0.3], end=[4.0, 2.2], endpoint=ch.bool(0.5, "endpoint"))
        shape = [sc["gpts"]]
    elif kind == "CustomScan":
        sc.update(n=ch.range(1, 9, "n"))
        shape = [sc["n"]]
    elif kind in ("FrozenPhonons", "AtomsEnsemble"):
        sc.update(n=ch.range(1, 6, "n"), natoms=ch.range(1, 3, "natoms"), fp_seed=ch.range(1, 1000, "fp-seed"), explicit=ch.bool(0.5, "explicit-seeds"))
        shape = [sc["n"]]
    elif kind in ("CTF", "Aberrations", "Aperture", "Probe"):
        params = {"CTF": ["defocus", "C30", "semiangle_cutoff"], "Aberrations": ["defocus", "C30", "C12"], "Aperture": ["semiangle_cutoff"],
                  "Probe": ["defocus", "semiangle_cutoff"]}[kind]
        k = ch.range(1, min(2, len(params)), "n-dists")
        names = []
        for _ in range(k):
            names.append(ch.pick([p for p in params if p not in names], "param"))
        sc["dists"] = [{"param": n, "n": ch.range(1, 4, "dist-n"), "kind": ch.pick(["uniform", "values", "gauss"], "dist-kind")} for n in names]
        shape = [d["n"] for d in sc["dists"]]
        if kind == "Probe":
            sc["scan_n"] = ch.range(1, 4, "scan-n")
    else:
        naxes = ch.range(1, 3, "n-axes")
        sc["ens"] = [ch.range(1, 5, "axis-len") for _ in range(naxes)]
        sc["axis_kinds"] = [ch.pick(["ScanAxis", "OrdinalAxis", "ParameterAxis", "UnknownAxis"], "axis-kind") for _ in range(naxes)]
        sc["lazy"] = ch.bool(0.5, "lazy-object")
        shape = sc["ens"]
    sc["shape_hint"] = shape
    return sc


def make_dist(d, variant=0):
    """variant > 0: a sibling distribution -- same length, and for 'values' / 'gauss' the same values with other weights"""
    import abtem.distributions as D

    lo = {"defocus": 0.0, "C30": -1e4, "C12": 5.0, "semiangle_cutoff": 12.0}[d["param"]]
    hi = {"defocus": 60.0, "C30": 2e4, "C12": 25.0, "semiangle_cutoff": 18.0}[d["param"]]
    if d["kind"] == "uniform":
        return D.uniform(lo, hi + 0.1 * variant * (hi - lo), d["n"])
    if d["kind"] == "values":
        vals = [lo + (hi - lo) * (i * 0.37 % 1.0) for i in range(d["n"])]
        return D.from_values(vals) if variant == 0 else D.from_values(vals, weights=[1.0 + 0.5 * variant * (i + 1) for i in range(d["n"])])
    return D.gaussian(standard_deviation=(hi - lo) / 6, num_samples=d["n"], center=(hi + lo) / 2, sampling_limit=2.0,
                      normalize="intensity" if variant % 2 == 0 else "amplitude")


def make_ensemble(sc):
    import abtem
    import ase
    from abtem.core.axes import OrdinalAxis, ParameterAxis, ScanAxis, UnknownAxis

    k = sc["kind"]
    var = sc.get("variant", 0)
    rng = np.random.default_rng(sc["seed"] + var)
    if k == "GridScan":
        return abtem.GridScan(start=tuple(sc["start"]), end=tuple(e * (1 + 0.1 * var) for e in sc["end"]), gpts=tuple(sc["gpts"]), endpoint=sc["endpoint"])
    if k == "LineScan":
        return abtem.LineScan(start=tuple(sc["start"]), end=tuple(e * (1 + 0.1 * var) for e in sc["end"]), gpts=sc["gpts"], endpoint=sc["endpoint"])
    if k == "CustomScan":
        return abtem.CustomScan(rng.random((sc["n"], 2)) * 5.0)
    if k in ("FrozenPhonons", "AtomsEnsemble"):
        # a sibling ensemble (variant > 0) has the same structure, sigmas and size and other seeds
        atoms = ase.Atoms(["Si", "C", "O"][: sc["natoms"]], positions=np.random.default_rng(sc["seed"]).random((sc["natoms"], 3)) * 4.0,
                          cell=[4, 4, 4], pbc=True)
        base = sc["fp_seed"] + 1013 * var
        seed = tuple(base + 7 * i for i in range(sc["n"])) if sc["explicit"] else base
        fp = abtem.FrozenPhonons(atoms, sc["n"], 0.1, seed=seed)
        return fp if k == "FrozenPhonons" else fp.to_atoms_ensemble()
    if k in ("CTF", "Aberrations", "Aperture", "Probe"):
        kw = {d["param"]: make_dist(d, var) for d in sc["dists"]}
        if k == "CTF":
            return abtem.CTF(energy=100e3, **({"semiangle_cutoff": 20.0} | kw))
        if k == "Aberrations":
            from abtem.transfer import Aberrations

            return Aberrations(energy=100e3, **kw)
        if k == "Aperture":
            from abtem.transfer import Aperture

            return Aperture(energy=100e3, **kw)
        p = abtem.Probe(energy=100e3, extent=6.0, gpts=12, **({"semiangle_cutoff": 15.0} | kw))
        p = p.copy()
        p._scan_positions = abtem.CustomScan(rng.random((sc["scan_n"], 2)) * 5.0) if hasattr(p, "_scan_positions") else None
        return p
    shape = tuple(sc["ens"]) + (3, 4)
    arr = rng.random(shape).astype("float32")
    axes = []
    for n, ak in zip(sc["ens"], sc["axis_kinds"]):
        if ak == "ScanAxis":
            axes.append(ScanAxis(label="x", sampling=0.3, offset=0.5, units="Å"))
        elif ak == "OrdinalAxis":
            axes.append(OrdinalAxis(label="o", values=tuple(float(i) * 1.5 for i in range(n))))
        elif ak == "ParameterAxis":
            axes.append(ParameterAxis(label="C10", values=tuple(10.0 - i for i in range(n)), units="Å"))
        else:
            axes.append(UnknownAxis())
    if k == "Waves":
        obj = abtem.Waves(arr.astype("complex64"), energy=100e3, sampling=0.1, ensemble_axes_metadata=axes)
    else:
        from abtem.measurements import Images

        obj = Images(arr, sampling=0.1, ensemble_axes_metadata=axes)
    return obj.ensure_lazy() if sc["lazy"] else obj


def members(ens, sc):
    """numeric array of shape ensemble_shape + (k,) describing every member"""
    k = sc["kind"]
    shape = tuple(ens.ensemble_shape)
    if k in ("GridScan", "LineScan", "CustomScan"):
        return np.asarray(ens.get_positions(), dtype=float).reshape(shape + (2,))
    if k == "FrozenPhonons":
        seeds = np.asarray(ens.seed, dtype=float).reshape(shape + (1,))
        pos = np.stack([a.positions.ravel() for a in ens]).reshape(shape + (-1,))
        return np.concatenate([seeds, pos], axis=-1)
    if k == "AtomsEnsemble":
        return np.stack([a.positions.ravel() for a in ens]).reshape(shape + (-1,))
    if k in ("CTF", "Aberrations", "Aperture", "Probe"):
        import abtem.distributions as D

        cols = []
        src = ens
        names = [d["param"] for d in sc["dists"]]
        dists = []
        for n in names:
            holder = src
            if k in ("CTF",) and n == "semiangle_cutoff":
                v = src.semiangle_cutoff
            elif k == "Probe":
                v = src.aperture.semiangle_cutoff if n == "semiangle_cutoff" else getattr(src.aberrations, n)
            else:
                v = getattr(holder, n)
            dists.append(v)
        # axes order = the object's own ensemble axes order: identify by matching lengths/values through axes metadata
        grids = []
        for v in dists:
            if isinstance(v, D.BaseDistribution):
                grids.append((np.asarray(v.values, dtype=float).ravel(), np.asarray(v.weights, dtype=float).ravel()))
            else:
                grids.append((np.array([float(v)]), np.array([1.0])))
        out = {"names": names, "grids": grids}
        return out
    arr = ens.array
    if hasattr(arr, "compute"):
        arr = arr.compute(scheduler="synchronous")
    arr = np.asarray(arr)
    return arr.reshape(shape + (-1,))


def axis_coords(ens):
    """per ensemble axis: the listed values (ordinal axes: they identify the members) or None.
    Linear axes (a block keeps the sampling, its offset is relative to the block) and index-like axes are not compared here;
    the positions / array values they describe are compared through members()."""
    out = []
    for ax, n in zip(ens.ensemble_axes_metadata, ens.ensemble_shape):
        vals = getattr(ax, "values", None)
        if vals is None:
            out.append(None)
            continue
        try:
            out.append(np.asarray([np.ravel(np.asarray(x, dtype=float)) for x in vals], dtype=float))
        except Exception:  # noqa: BLE001
            out.append(None)
    return out


def sig(sc, aspect, mode):
    return {"aspect": aspect, "mode": mode, "kind": sc["kind"]}


def run_one(run):
    """a session of one or two related ensembles in one process: the drawn one, and -- half of the time -- a sibling of the same
    kind, shape and chunking that differs in one respect (seeds, weights, values).  The sibling is partitioned first (state it
    leaves behind must not reach the second ensemble), and / or its lazy blocks are computed in the same graph."""
    ch = run.ch
    sc = draw_scenario(ch)
    run.scenario = sc
    reset_process_state()
    sc["sibling"] = ch.pick([None, "before", "joint", "after"], "sibling", weights=[4, 2, 2, 1])
    chunks = None
    lazies = []
    order = [0]
    if sc["sibling"] == "before":
        order = [1, 0]
    elif sc["sibling"] in ("joint", "after"):
        order = [0, 1]
    for var in order:
        scv = dict(sc, variant=var)
        res = check_scene(run, scv, chunks, defer_lazy=sc["sibling"] == "joint", label="" if var == 0 else "sibling ")
        if res is None:
            return
        chunks, lz = res
        sc["chunks"] = chunks
        if lz is not None:
            lazies.append(lz)
    if sc["sibling"]:
        run.note("reach_sibling_" + sc["sibling"])
    if lazies:
        # both ensembles' lazy blocks in ONE graph
        import dask

        sim = run.add_sim(Sim(ch, draw_sim_config(ch, light=True)))
        try:
            with sim:
                arrs = dask.compute(*[lz[0] for lz in lazies], optimize_graph=sim.optimize_graph)
        except (HarnessError, InjectedCrash):
            raise
        except Exception as e:  # noqa: BLE001
            run.violate("partition-succeeds", sig(sc, "raise", "lazy-joint"), f"joint compute of two ensembles' blocks: {type(e).__name__}: {e} at {tb(e)}")
            return
        for (lz, finish), arr in zip(lazies, arrs):
            finish(arr)


def check_scene(run, sc, chunks, defer_lazy, label):
    """partition one ensemble eagerly and lazily and verify the reassembly; returns (chunks, deferred lazy or None), None on abort"""
    ch = run.ch
    try:
        ens = make_ensemble(sc)
        shape = tuple(ens.ensemble_shape)
        full = members(ens, sc)
        full_axes = axis_coords(ens)
    except (HarnessError, InjectedCrash):
        raise
    except Exception as e:  # noqa: BLE001
        run.invalid = True
        run.note("reference_raised")
        run.scenario["reference_error"] = f"{type(e).__name__}: {e} at {tb(e)}"[:300]
        return None
    run.scenario["ensemble_shape"] = list(shape)
    if chunks is None:
        chunks = [composition(ch, n) for n in shape]
    nblocks = int(np.prod([len(c) for c in chunks])) if chunks else 1
    vchunks = tuple(tuple(c) for c in chunks)
    starts = [np.concatenate([[0], np.cumsum(c)[:-1]]).astype(int) for c in chunks]
    tol = dict(rtol=1e-9, atol=1e-12) if sc["kind"] in ("GridScan", "LineScan") else dict(rtol=0, atol=0)
    is_dist = isinstance(full, dict)

    def check_blocks(get_block, mode):
        """get_block(index tuple) -> sub-ensemble"""
        mode = label + mode
        if not is_dist:
            out = np.full(full.shape, np.nan)
            count = np.zeros(shape, dtype=int)
        seen_axes = [[None] * len(c) for c in chunks]
        for idx in np.ndindex(*[len(c) for c in chunks]):
            try:
                blk = get_block(idx)
            except (HarnessError, InjectedCrash):
                raise
            except Exception as e:  # noqa: BLE001
                run.violate("partition-succeeds", sig(sc, "raise", mode), f"{mode}: block {idx}: {type(e).__name__}: {e} at {tb(e)}")
                return
            want_shape = tuple(chunks[d][i] for d, i in enumerate(idx))
            if tuple(blk.ensemble_shape) != want_shape:
                run.violate("block-shape", sig(sc, "shape", mode), f"{mode}: block {idx} has ensemble shape {tuple(blk.ensemble_shape)}, chunking says {want_shape}")
                return
            sl = tuple(slice(int(starts[d][i]), int(starts[d][i]) + chunks[d][i]) for d, i in enumerate(idx))
            m = members(blk, sc)
            if is_dist:
                # every axis of the block must list the corresponding slice of the full values / weights
                for d, ((fv, fw), (bv, bw)) in enumerate(zip(full["grids"], m["grids"])):
                    if len(fv) == 1 and len(bv) == 1:
                        ok = np.array_equal(fv, bv)
                        continue
                    dd = [j for j, dist in enumerate(sc["dists"]) if dist["param"] == full["names"][d]][0]
                    # the object's ensemble axes are in its own order: find which ensemble dimension carries this parameter
                    dim = param_dim(ens, sc, full["names"][d])
                    s0 = int(starts[dim][idx[dim]])
                    want_v, want_w = fv[s0: s0 + chunks[dim][idx[dim]]], fw[s0: s0 + chunks[dim][idx[dim]]]
                    if not (np.array_equal(bv, want_v) and np.array_equal(bw, want_w)):
                        run.violate("members-reassemble", sig(sc, "values", mode),
                                    f"{mode}: block {idx}: {full['names'][d]} values/weights {bv}/{bw} != slice {want_v}/{want_w} of the original")
                        return
            else:
                if m.shape[:-1] != want_shape or m.shape[-1] != full.shape[-1]:
                    run.violate("members-reassemble", sig(sc, "shape", mode), f"{mode}: block {idx} members shape {m.shape}")
                    return
                out[sl] = m
                count[sl] += 1
            bc = axis_coords(blk)
            for d, c in enumerate(bc):
                if all(j == 0 for dd, j in enumerate(idx) if dd != d):
                    seen_axes[d][idx[d]] = c
        if not is_dist:
            if (count != 1).any():
                run.violate("members-reassemble", sig(sc, "coverage", mode), f"{mode}: members covered {np.unique(count)} times")
                return
            if not np.allclose(out, full, **tol) or np.isnan(out).any():
                bad = np.argwhere(~np.isclose(out, full, **tol))
                run.violate("members-reassemble", sig(sc, "values", mode),
                            f"{mode}: reassembled members differ from the original at {bad[:3].tolist()} (max |diff| {np.nanmax(np.abs(out - full)):.3g}); "
                            f"chunks {chunks}")
                return
        for d, fa in enumerate(full_axes):
            if fa is None or any(c is None for c in seen_axes[d]):
                continue
            cat = np.concatenate([c for c in seen_axes[d] if c is not None and len(c)]) if any(len(c) for c in seen_axes[d]) else np.zeros((0,))
            if cat.shape != fa.shape or not np.allclose(cat, fa, rtol=1e-9, atol=1e-12):
                run.violate("axes-reassemble", sig(sc, "coordinates", mode),
                            f"{mode}: concatenated axis {d} coordinates {cat.ravel()[:8]} != original {fa.ravel()[:8]} (chunks {chunks[d]})")
                return

    # ---- eager partitioning ----------------------------------------------------------------------------------------
    try:
        eager_blocks = {}
        for idx, slics, blk in make_ensemble(sc).generate_blocks(vchunks):
            eager_blocks[tuple(int(i) for i in np.ravel(idx))] = blk.item()
    except (HarnessError, InjectedCrash):
        raise
    except Exception as e:  # noqa: BLE001
        run.violate("partition-succeeds", sig(sc, "raise", label + "eager"), f"generate_blocks({vchunks}): {type(e).__name__}: {e} at {tb(e)}")
        eager_blocks = None
    if eager_blocks is not None:
        if len(eager_blocks) != nblocks:
            run.violate("block-shape", sig(sc, "count", label + "eager"), f"generate_blocks yields {len(eager_blocks)} blocks, chunking has {nblocks}")
        else:
            check_blocks(lambda idx: eager_blocks[idx], "eager")
    # ---- lazy partitioning under the simulator ------------------------------------------------------------------------
    def finish(arr):
        want = tuple(len(c) for c in chunks)
        arr = np.asarray(arr, dtype=object)
        if arr.shape != want:
            run.violate("block-shape", sig(sc, "count", label + "lazy"), f"ensemble_blocks has block shape {arr.shape}, chunking has {want}")
        else:
            check_blocks(lambda idx: arr[idx] if len(idx) else arr.item(), "lazy-joint" if defer_lazy else "lazy")

    if nblocks >= 2:
        run.nontrivial = True
        run.note("reach_multi_block")
    if defer_lazy:
        try:
            return chunks, (make_ensemble(sc).ensemble_blocks(vchunks), finish)
        except (HarnessError, InjectedCrash):
            raise
        except Exception as e:  # noqa: BLE001
            run.violate("partition-succeeds", sig(sc, "raise", label + "lazy"), f"ensemble_blocks({vchunks}): {type(e).__name__}: {e} at {tb(e)}")
            return chunks, None
    sim = run.add_sim(Sim(ch, draw_sim_config(ch, light=True)))
    try:
        with sim:
            lazy = make_ensemble(sc).ensemble_blocks(vchunks)
            arr = lazy.compute(optimize_graph=sim.optimize_graph)
        run.scenario["sim"] = sim.describe()
    except (HarnessError, InjectedCrash):
        raise
    except Exception as e:  # noqa: BLE001
        run.violate("partition-succeeds", sig(sc, "raise", label + "lazy"), f"ensemble_blocks({vchunks}).compute(): {type(e).__name__}: {e} at {tb(e)}")
        arr = None
    if arr is not None:
        finish(arr)
    return chunks, None


def param_dim(ens, sc, name):
    """which ensemble dimension of the object carries the distribution of `name`"""
    labels = [getattr(a, "label", "") for a in ens.ensemble_axes_metadata]
    alias = {"defocus": ("C10", "defocus"), "semiangle_cutoff": ("semiangle_cutoff", "semiangle cutoff"), "C30": ("C30",), "C12": ("C12",)}[name]
    for i, lab in enumerate(labels):
        if lab in alias:
            return i
    raise HarnessError(f"cannot find ensemble axis for {name} among {labels}")
