"""C38 -- results do not depend on the FFT backend or precision setting (DESIGN 3, C38)."""
from __future__ import annotations

import numpy as np

from simkit import oracle, scene
from simkit.errors import HarnessError, InjectedCrash
from simkit.sim import Sim, draw_sim_config, reset_process_state
from simkit.util import tb

from . import C01

PROPERTY = "C38"
LEVEL = "exploration"
BUDGET = {"quick": (320, 170), "thorough": (8000, 1700)}
RULE = ("the same seeded scene run under 3-4 drawn configurations of {fft: numpy / fftw, fftw.planning_effort: ESTIMATE / MEASURE / PATIENT "
        "(short time limit), fftw.threads 1 / 2, precision float32 / float64, FFTW wisdom cold / warmed by a previous identical run / "
        "forgotten, fft backend switched between graph construction and compute, eager or lazy computed by SimScheduler}. Two scene "
        "families: a simulation pipeline (builder x potential x scan x detectors, as in C01) and measurement transforms on seeded waves "
        "(apply_ctf, diffraction_patterns, intensity + interpolate, downsample) including lazily chunked odd-sized arrays whose blocks "
        "are offset views. Oracle: every configuration succeeds and agrees with the float64 / numpy / eager reference: double with "
        "double to 1e-7, anything involving single precision to 2e-3 of the result scale. distinct = (scenario hash, schedule hash); "
        "non-trivial = >= 2 different backends or precisions compared")
ASSUMPTIONS = ["single-precision multislice accumulates rounding: 2e-3 of max|reference| (errors this check targets are O(1e-2) or exceptions)",
               "FFTW_MEASURE / PATIENT choose plans by timing: results are compared by tolerance only, never by digest"]
TECHNIQUE = "deterministic simulation: configuration-knob swarm (FFT backend, planner, precision, wisdom history) x simulated schedules, pairwise agreement"
LEVEL_TEXT = "seeded search over scenes x configuration sets x wisdom histories x simulated schedules with a float64 numpy reference"
LEVEL_NOTE = "sampled; mkl_fft and GPU backends are not installed and not covered"

warmup = C01.warmup


def draw_config(ch):
    fft = ch.pick(["fftw", "numpy"], "fft", weights=[3, 1])
    return {"fft": fft, "precision": ch.pick(["float32", "float64"], "precision"),
            "planning": ch.pick(["FFTW_ESTIMATE", "FFTW_MEASURE", "FFTW_PATIENT"], "planning", weights=[3, 2, 1]),
            "threads": ch.pick([1, 2], "threads", weights=[3, 1]), "wisdom": ch.pick(["cold", "warm", "cold-after-use"], "wisdom"),
            "lazy": ch.bool(0.6, "lazy"), "switch_fft_before_compute": ch.bool(0.2, "switch-fft")}


def draw_scenario(ch):
    fam = ch.pick(["pipeline", "transform"], "family")
    sc = {"family": fam, "configs": [draw_config(ch) for _ in range(ch.range(3, 4, "n-configs"))]}
    if fam == "pipeline":
        base = C01.draw_scenario(ch, pot_kinds=("atoms", "fp", "array"), pot_weights=(3, 2, 1))
        base["post"] = None
        base.pop("knobs")
        sc.update(base)
        sc["max_batch"] = ch.pick(["auto", 1, 2], "max-batch")
    else:
        sc.update(gpts=[ch.pick([15, 16, 9, 21], "gx"), ch.pick([15, 12, 11], "gy")], ensemble=ch.pick([0, 2, 3], "ens"), seed=ch.subseed("w"),
                  op=ch.pick(["apply_ctf", "diffraction_patterns", "interpolate", "downsample", "ctf+dp", "multislice"], "op"),
                  energy=ch.pick([100e3, 200e3], "energy"),
                  chunk_ones=ch.bool(0.6, "chunk-ones"))
    return sc


def overrides(c, fft=None):
    return {"precision": c["precision"], "fft": fft or c["fft"], "fftw.planning_effort": c["planning"], "fftw.threads": c["threads"],
            "fftw.planning_timelimit": 0.05}


def run_transform(sc, lazy, dtype):
    import abtem
    from abtem.core.axes import OrdinalAxis

    rng = np.random.default_rng(sc["seed"])
    n = sc["ensemble"]
    shape = ((n,) if n else ()) + tuple(sc["gpts"])
    kx = np.fft.fftfreq(shape[-2])[:, None]
    ky = np.fft.fftfreq(shape[-1])[None, :]
    spec = (rng.standard_normal(shape) + 1j * rng.standard_normal(shape)) * ((kx**2 + ky**2) < 0.12)
    arr = np.fft.ifft2(spec).astype(dtype)
    axes = [OrdinalAxis(label="m", values=tuple(float(i) for i in range(n)))] if n else []
    w = abtem.Waves(arr, energy=sc["energy"], sampling=0.2, ensemble_axes_metadata=axes)
    if lazy:
        w = w.ensure_lazy(chunks=((1,) * n,) + (-1, -1)) if (n and sc["chunk_ones"]) else w.ensure_lazy()
    op = sc["op"]
    if op == "apply_ctf":
        return w.apply_ctf(abtem.CTF(defocus=50.0, Cs=1e4, semiangle_cutoff=30.0, energy=sc["energy"]))
    if op == "diffraction_patterns":
        return w.diffraction_patterns(max_angle=None)
    if op == "interpolate":
        return w.intensity().interpolate(gpts=(sc["gpts"][0] + 5, sc["gpts"][1] + 4), method="fft")
    if op == "downsample":
        return w.downsample(max_angle="cutoff")
    if op == "multislice":
        # in-place FFT convolutions on the blocks of an existing (possibly offset-view) wave ensemble
        import ase

        ext = (sc["gpts"][0] * 0.2, sc["gpts"][1] * 0.2)
        atoms = ase.Atoms("SiC", positions=[(0.3 * ext[0], 0.4 * ext[1], 1.0), (0.7 * ext[0], 0.2 * ext[1], 2.5)], cell=[ext[0], ext[1], 4.0], pbc=True)
        pot = abtem.Potential(atoms, gpts=tuple(sc["gpts"]), slice_thickness=2.0)
        return w.multislice(pot)
    return w.apply_ctf(abtem.CTF(defocus=30.0, semiangle_cutoff=25.0, energy=sc["energy"])).diffraction_patterns(max_angle=None)


def run_scene(sc, cfg, lazy):
    from abtem.core.utils import get_dtype

    if sc["family"] == "pipeline":
        return C01.pipeline(sc, lazy=lazy, max_batch=sc["max_batch"])
    return run_transform(sc, lazy, get_dtype(complex=True))


def sig(sc, cfg, aspect, extra=None):
    s = {"aspect": aspect, "family": sc["family"], "fft": cfg["fft"], "precision": cfg["precision"], "planning": cfg["planning"],
         "lazy": cfg["lazy"], "wisdom": cfg["wisdom"], "switch": cfg["switch_fft_before_compute"], "op": sc.get("op"),
         "polar_binned": any(d["kind"] in ("flexible", "segmented") for d in sc.get("detectors", []))}
    if extra:
        s.update(extra)
    return s


def as_list(x):
    return list(x) if isinstance(x, (list, tuple)) else [x]


def run_one(run):
    import pyfftw

    ch = run.ch
    sc = draw_scenario(ch)
    run.scenario = sc
    # ---- reference: float64, numpy FFT, eager --------------------------------------------------------------------------------
    reset_process_state({"precision": "float64", "fft": "numpy"})
    try:
        ref = as_list(run_scene(sc, None, lazy=False))
        refs = [oracle.to_numpy(r.array) for r in ref]
    except (HarnessError, InjectedCrash):
        raise
    except Exception as e:  # noqa: BLE001
        run.invalid = True
        run.note("reference_raised")
        sc["reference_error"] = f"{type(e).__name__}: {e} at {tb(e)}"[:300]
        return
    kinds = set()
    for ci, cfg in enumerate(sc["configs"]):
        kinds.add((cfg["fft"], cfg["precision"]))
        reset_process_state(overrides(cfg))  # forgets wisdom too
        try:
            if cfg["wisdom"] in ("warm", "cold-after-use") and cfg["fft"] == "fftw":
                run_scene(sc, cfg, lazy=False)  # fills the process-global wisdom with plans for these shapes
                if cfg["wisdom"] == "cold-after-use":
                    pyfftw.forget_wisdom()
                run.note("reach_wisdom_" + cfg["wisdom"].replace("-", "_"))
            if cfg["lazy"]:
                # FFTW_MEASURE / PATIENT plan by wall-clock timing (and may hit the planning time limit): which abTEM lines run is then
                # not a function of the seed, so such configurations are scheduled without line-level interleaving
                timed = cfg["fft"] == "fftw" and cfg["planning"] != "FFTW_ESTIMATE"
                sim = run.add_sim(Sim(ch, draw_sim_config(ch, light=True, allow_threads=not timed)))
                with sim:
                    obj = run_scene(sc, cfg, lazy=True)
                    if cfg["switch_fft_before_compute"]:
                        # tasks read the configuration when they run, not when the graph was built
                        import abtem.core.config as acfg

                        acfg.config["fft"] = "numpy" if cfg["fft"] == "fftw" else "fftw"
                        run.note("reach_switch_before_compute")
                    got = as_list(sim.compute(obj))
            else:
                got = as_list(run_scene(sc, cfg, lazy=False))
        except (HarnessError, InjectedCrash):
            raise
        except Exception as e:  # noqa: BLE001
            run.violate("configuration-succeeds", sig(sc, cfg, "raise", {"exc": type(e).__name__}),
                        f"configuration {ci} {cfg} raised {type(e).__name__}: {e} at {tb(e)}; the float64 / numpy reference succeeded")
            continue
        if len(got) != len(refs):
            run.violate("agrees-with-reference", sig(sc, cfg, "count"), f"{len(got)} outputs vs {len(refs)}")
            continue
        single = cfg["precision"] == "float32"
        for i, (g, r) in enumerate(zip(got, refs)):
            ga = oracle.to_numpy(g.array)
            if ga.shape != r.shape:
                run.violate("agrees-with-reference", sig(sc, cfg, "shape"), f"out{i}: shape {ga.shape} vs {r.shape}")
                break
            scale = float(np.max(np.abs(r))) if r.size else 0.0
            d = float(np.max(np.abs(ga - r))) if r.size else 0.0
            tol = (2e-3 if single else 1e-7) * scale + (1e-6 if single else 1e-12)
            if not d <= tol:
                run.violate("agrees-with-reference", sig(sc, cfg, "values"),
                            f"configuration {ci} {cfg}: out{i} ({type(g).__name__}) differs from the float64/numpy reference by {d:.3g} "
                            f"(scale {scale:.3g}, tolerance {tol:.3g})")
                break
            want_real = "float32" if single else "float64"
            if ga.real.dtype != np.dtype(want_real):
                run.note("dtype_not_as_configured")
    run.nontrivial = len(kinds) >= 2
    run.digest(*[np.round(r.real, 5) for r in refs])
