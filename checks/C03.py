"""C03 -- parameter ensembles decompose into individual simulations (DESIGN 3, C03)."""
from __future__ import annotations

import itertools

import numpy as np

from simkit import oracle, scene
from simkit.errors import HarnessError, InjectedCrash
from simkit.sim import Sim, draw_sim_config, reset_process_state
from simkit.util import tb

from . import C01

PROPERTY = "C03"
LEVEL = "exploration"
BUDGET = {"quick": (480, 160), "thorough": (12000, 1600)}
RULE = ("1-3 distribution-valued parameters at once (defocus / C30 / C12 / semiangle_cutoff / focal_spread / tilt_x / tilt_y as uniform, "
        "from_values or gaussian distributions, ensemble_mean T/F) on a Probe (build or multislice+detectors over a small scan), a "
        "PlaneWave (multislice) or a CTF applied to seeded exit waves (apply_ctf). Reference: the scalar run for every combination of "
        "member values (outer product, eager). Subjects: the eager ensemble; the lazy ensemble with distribution axes chunked by drawn "
        "max_batch / dask.chunk-size, computed by SimScheduler. Oracle: every returned ensemble axis is identified with one "
        "distribution and lists its values in order; member (i, j, ..) = scalar run (i, j, ..); axes that were averaged equal the "
        "weighted mean sum(w_i^2 m_i)/sum(w_i^2) (w = the distribution's amplitude weights; plain mean for unit weights). "
        "distinct = (scenario hash, schedule hash); non-trivial = >= 2 members")
ASSUMPTIONS = ["the weighted mean of an 'intensity'-normalised distribution is sum(w^2 m)/sum(w^2); for unit weights the plain mean",
               "ensemble axes may come back in any order; each is matched to its distribution by type, label and values"]
TECHNIQUE = "deterministic simulation: ensemble (eager and simulated-schedule lazy) vs outer product of scalar reference runs"
LEVEL_TEXT = "seeded search over distribution combinations x pipelines x simulated schedules; every member compared with its scalar run"
LEVEL_NOTE = "sampled; small ensembles (<= 18 members); trusts the scalar eager run"

warmup = C01.warmup

MENU = {
    "defocus": {"uniform": (0.0, 60.0), "values": [10.0, 35.0, 80.0, -20.0], "gauss": 12.0},
    "C30": {"uniform": (-1e4, 2e4), "values": [0.0, 2e4, -1e4], "gauss": 5e3},
    "C12": {"uniform": (5.0, 25.0), "values": [4.0, 18.0, 30.0], "gauss": 6.0},
    "semiangle_cutoff": {"uniform": (12.0, 18.0), "values": [11.0, 15.0, 19.0]},
    "focal_spread": {"uniform": (10.0, 40.0), "values": [5.0, 25.0, 45.0]},
    "tilt_x": {"uniform": (-4.0, 4.0), "values": [-3.0, 1.0, 5.0]},
    "tilt_y": {"uniform": (-2.0, 6.0), "values": [0.5, 2.5, -4.5]},
}


def draw_distribution(ch, name):
    m = MENU[name]
    kinds = ["uniform", "values"] + (["gauss"] if "gauss" in m else [])
    kind = ch.pick(kinds, "dist-kind", weights=[3, 3, 1][: len(kinds)])
    n = ch.range(1, 3, "dist-n")
    d = {"param": name, "kind": kind, "n": n, "ensemble_mean": ch.bool(0.3, "dist-mean")}
    if kind == "values":
        start = ch.int(len(m["values"]), "val-start")
        d["values"] = [m["values"][(start + i) % len(m["values"])] for i in range(n)]
    elif kind == "gauss":
        d["n"] = n = ch.pick([2, 3], "gauss-n")
        d["std"] = m["gauss"]
        d["center"] = ch.pick([0.0, m["values"][0]], "gauss-center")
    return d


def make_distribution(d):
    import abtem.distributions as D

    m = MENU[d["param"]]
    if d["kind"] == "uniform":
        return D.uniform(m["uniform"][0], m["uniform"][1], d["n"], ensemble_mean=d["ensemble_mean"])
    if d["kind"] == "values":
        return D.from_values(d["values"], ensemble_mean=d["ensemble_mean"])
    return D.gaussian(standard_deviation=d["std"], num_samples=d["n"], center=d["center"], sampling_limit=2.0,
                      ensemble_mean=d["ensemble_mean"])


def draw_scenario(ch):
    knobs = scene.draw_knobs(ch)
    target = ch.pick(["probe-build", "probe-multislice", "planewave", "apply_ctf"], "target", weights=[2, 3, 2, 3])
    if target == "planewave":
        names = ch.pick([["tilt_x"], ["tilt_y"], ["tilt_x", "tilt_y"]], "params")
    elif target == "apply_ctf":
        pool = ["defocus", "C30", "C12", "semiangle_cutoff", "focal_spread"]
        k = ch.range(1, 3, "n-dists")
        names = []
        for _ in range(k):
            c = ch.pick([x for x in pool if x not in names], "param")
            names.append(c)
    else:
        pool = ["defocus", "C30", "C12", "semiangle_cutoff", "tilt_x", "tilt_y"]  # (Probe has no focal_spread parameter)
        k = ch.range(1, 3, "n-dists")
        names = []
        for _ in range(k):
            names.append(ch.pick([x for x in pool if x not in names], "param"))
    dists = [draw_distribution(ch, n) for n in names]
    # parameters that are NOT distributed may still carry a non-default scalar (e.g. tilt=(distribution, 3.0))
    scalars = {}
    pool_s = {"planewave": ["tilt_x", "tilt_y"], "apply_ctf": ["defocus", "C30", "semiangle_cutoff"]}.get(
        target, ["tilt_x", "tilt_y", "defocus", "C30"])
    for name in pool_s:
        if name not in names and ch.bool(0.4, "scalar-" + name):
            scalars[name] = ch.pick(MENU[name]["values"], "scalar-value")
    sc = {"knobs": knobs, "target": target, "dists": dists, "scalars": scalars, "energy": ch.pick([100e3, 200e3], "energy")}
    if target in ("probe-multislice", "planewave"):
        sc["potential"] = scene.draw_potential(ch, kinds=("atoms",), finite_p=0.0, exit_p=0.0)
        sc["potential"]["gpts"] = [ch.pick([16, 20], "gx"), ch.pick([16, 18], "gy")]
        sc["detector"] = ch.pick(["waves", "annular", "pixelated", "flexible"], "det")
        sc["scan_n"] = ch.range(1, 3, "scan-n")
        sc["scan_seed"] = ch.subseed("scan")
    else:
        sc["gpts"] = [ch.pick([16, 20], "gx"), ch.pick([16, 18], "gy")]
        sc["extent"] = [ch.pick([6.0, 8.0], "ex"), 7.0]
        sc["wave_seed"] = ch.subseed("wave")
        sc["wave_ensemble"] = ch.pick([0, 2], "wave-ens")
        sc["post"] = ch.pick([None, "intensity", "diffraction_patterns"], "post")
    return sc


def run_pipeline(sc, values, lazy, max_batch="auto"):
    """values: dict param -> scalar or distribution object"""
    import abtem

    target = sc["target"]
    values = {**sc.get("scalars", {}), **values}
    tilt = (values.get("tilt_x", 0.0), values.get("tilt_y", 0.0))
    ab = {k: values[k] for k in ("C30", "C12") if k in values}
    if "C12" in ab:
        ab["phi12"] = 0.4
    kw = {}
    if "defocus" in values:
        kw["defocus"] = values["defocus"]
    if "focal_spread" in values:
        kw["focal_spread"] = values["focal_spread"]
    if target in ("probe-build", "probe-multislice"):
        cutoff = values.get("semiangle_cutoff", 15.0)
        common = dict(energy=sc["energy"], semiangle_cutoff=cutoff, tilt=tilt, **ab, **kw)
        if target == "probe-build":
            p = abtem.Probe(extent=tuple(sc["extent"]), gpts=tuple(sc["gpts"]), **common)
            out = p.build(lazy=lazy, max_batch=max_batch)
            if sc.get("post") == "intensity":
                out = out.intensity()
            elif sc.get("post") == "diffraction_patterns":
                out = out.diffraction_patterns(max_angle=None)
            return out
        pot = scene.make_potential(sc["potential"])
        rng = np.random.default_rng(sc["scan_seed"])
        scan = abtem.CustomScan(rng.random((sc["scan_n"], 2)) * np.array(scene.potential_extent(sc["potential"])))
        return abtem.Probe(**common).scan(pot, scan=scan, detectors=make_det(sc), lazy=lazy, max_batch=max_batch)
    if target == "planewave":
        pot = scene.make_potential(sc["potential"])
        return abtem.PlaneWave(energy=sc["energy"], tilt=tilt).multislice(pot, detectors=make_det(sc), lazy=lazy, max_batch=max_batch)
    # apply_ctf on seeded exit waves
    rng = np.random.default_rng(sc["wave_seed"])
    shape = ((sc["wave_ensemble"],) if sc["wave_ensemble"] else ()) + tuple(sc["gpts"])
    from abtem.core.utils import get_dtype

    arr = (rng.standard_normal(shape) + 1j * rng.standard_normal(shape)).astype(get_dtype(complex=True))
    from abtem.core.axes import OrdinalAxis

    axes = [OrdinalAxis(label="m", values=tuple(float(i) for i in range(sc["wave_ensemble"])))] if sc["wave_ensemble"] else []
    w = abtem.Waves(arr, energy=sc["energy"], extent=tuple(sc["extent"]), ensemble_axes_metadata=axes)
    if lazy:
        # one wave per block, so that the drawn dask.chunk-size (>= one wave) can always be honoured
        w = w.ensure_lazy(chunks=((1,) * sc["wave_ensemble"],) + (-1, -1)) if sc["wave_ensemble"] else w.ensure_lazy()
    ctf = abtem.CTF(semiangle_cutoff=values.get("semiangle_cutoff", 20.0), energy=sc["energy"], aberration_coefficients=None, **ab, **kw)
    out = w.apply_ctf(ctf, max_batch=max_batch)
    if sc.get("post") == "intensity":
        out = out.intensity()
    elif sc.get("post") == "diffraction_patterns":
        out = out.diffraction_patterns(max_angle=None)
    return out


def make_det(sc):
    import abtem

    return {"waves": abtem.WavesDetector(), "annular": abtem.AnnularDetector(4.0, 16.0), "pixelated": abtem.PixelatedDetector(),
            "flexible": abtem.FlexibleAnnularDetector(step_size=2.0)}[sc["detector"]]


def axis_param(ax, dists, used):
    """which distribution does this returned ensemble axis describe?"""
    vals = getattr(ax, "values", None)
    if vals is None:
        return None
    vals = [float(np.ravel(v)[0]) if np.ndim(v) else float(v) for v in vals]
    label = str(getattr(ax, "label", "") or "")
    alias = {"defocus": ("C10", "defocus"), "semiangle_cutoff": ("semiangle_cutoff", "semiangle cutoff"), "focal_spread": ("focal_spread", "focal spread")}
    best = None
    for i, d in enumerate(dists):
        if i in used or len(d["_values"]) != len(vals):
            continue
        dv = d["_values"]
        if np.allclose(vals, dv, rtol=1e-6, atol=1e-9) or (d["param"] == "defocus" and np.allclose(vals, [-x for x in dv], rtol=1e-6)):
            # two distributions may list the same values (focal_spread 5, 25 and C12 5, 25): the axis label decides between them
            score = 2 if label in alias.get(d["param"], (d["param"],)) else 1
            if best is None or score > best[0]:
                best = (score, i)
    return None if best is None else best[1]


def sig(sc, aspect, mode, extra=None):
    s = {"aspect": aspect, "mode": mode, "target": sc["target"], "params": "+".join(sorted(d["param"] for d in sc["dists"])),
         "n_dists": len(sc["dists"]), "kinds": "+".join(sorted({d["kind"] for d in sc["dists"]})),
         "any_mean": any(d["ensemble_mean"] for d in sc["dists"]), "gauss": any(d["kind"] == "gauss" for d in sc["dists"])}
    if extra:
        s.update(extra)
    return s


def run_one(run):
    ch = run.ch
    sc = draw_scenario(ch)
    run.scenario = sc
    knobs = sc["knobs"]
    rtol, atol = oracle.tol_for(knobs["precision"])
    wg = sc.get("gpts") or sc["potential"]["gpts"]
    reset_process_state(scene.knob_overrides(knobs, wg))
    dobjs = [make_distribution(d) for d in sc["dists"]]
    for d, o in zip(sc["dists"], dobjs):
        d["_values"] = [float(v) for v in np.asarray(o.values).ravel()]
        d["_weights"] = [float(w) for w in np.asarray(o.weights).ravel()]
    nmembers = int(np.prod([len(d["_values"]) for d in sc["dists"]]))

    # ---- reference: scalar runs over the outer product ---------------------------------------------------------
    refs = {}
    try:
        for idx in itertools.product(*[range(len(d["_values"])) for d in sc["dists"]]):
            vals = {d["param"]: d["_values"][i] for d, i in zip(sc["dists"], idx)}
            refs[idx] = oracle.to_numpy(run_pipeline(sc, vals, lazy=False).array)
    except (HarnessError, InjectedCrash):
        raise
    except Exception as e:  # noqa: BLE001
        run.invalid = True
        run.note("reference_raised")
        sc["reference_error"] = f"{type(e).__name__}: {e} at {tb(e)}"[:300]
        return

    def check(out, mode):
        arr = oracle.to_numpy(out.array)
        axes = list(out.ensemble_axes_metadata)
        used: dict = {}
        # axes whose label names a parameter are matched first, unlabelled ones take what is left
        for ai, ax in sorted(enumerate(axes), key=lambda t: 0 if str(getattr(t[1], "label", "") or "") else 1):
            di = axis_param(ax, sc["dists"], set(used.values()))
            if di is not None:
                used[ai] = di
        ref_shape = next(iter(refs.values())).shape
        missing = [i for i in range(len(sc["dists"])) if i not in used.values()]
        for di in missing:
            if not sc["dists"][di]["ensemble_mean"]:
                run.violate("axis-lists-values", sig(sc, "axis-missing", mode, {"param": sc["dists"][di]["param"]}),
                            f"no ensemble axis of the result lists the values {sc['dists'][di]['_values']} of {sc['dists'][di]['param']}; "
                            f"axes: {[(type(a).__name__, getattr(a, 'values', None)) for a in axes]}"[:500])
                return
        # move matched axes to the front in distribution order
        order = sorted(used, key=lambda ai: used[ai])
        rest = [i for i in range(arr.ndim) if i not in order]
        a = np.transpose(arr, order + rest)
        kept = [used[ai] for ai in order]
        lens = [len(sc["dists"][di]["_values"]) for di in kept]
        if a.shape[: len(kept)] != tuple(lens):
            run.violate("axis-lists-values", sig(sc, "axis-length", mode),
                        f"{mode}: ensemble axes {[sc['dists'][di]['param'] for di in kept]} list {lens} values but the computed array has "
                        f"shape {a.shape[: len(kept)]} along them (declared shape {tuple(out.shape)})")
            return
        if a.shape[len(kept):] != ref_shape:
            run.violate("member-equals-scalar", sig(sc, "shape", mode), f"member shape {a.shape[len(kept):]} != scalar run shape {ref_shape}")
            return
        for kidx in itertools.product(*[range(n) for n in lens]):
            # expected: weighted mean over the averaged (missing) distributions of the scalar runs
            num, den = 0.0, 0.0
            for midx in itertools.product(*[range(len(sc["dists"][di]["_values"])) for di in missing]):
                full = [None] * len(sc["dists"])
                for di, i in zip(kept, kidx):
                    full[di] = i
                w = 1.0
                for di, i in zip(missing, midx):
                    full[di] = i
                    w *= sc["dists"][di]["_weights"][i] ** 2
                num = num + w * refs[tuple(full)]
                den += w
            want = num / den
            got = a[kidx]
            ok, d, s = oracle.close(got, want, rtol, atol)
            if not ok:
                extra = {}
                clause = "member-equals-scalar" if not missing else "mean-equals-weighted-mean"
                if not missing:
                    wprod = float(np.prod([sc["dists"][di]["_weights"][i] for di, i in zip(kept, kidx)]))
                    if wprod != 1.0 and oracle.close(got, wprod * want, rtol, atol)[0]:
                        extra["scaled_by_weight"] = True
                else:
                    plain = np.mean([refs[tuple(f)] for f in itertools.product(*[range(len(dd["_values"])) for dd in sc["dists"]])
                                     if all(f[di] == i for di, i in zip(kept, kidx))], axis=0)
                    if oracle.close(got, plain, rtol, atol)[0]:
                        extra["equals_unweighted_mean"] = True
                run.violate(clause, sig(sc, "values", mode, extra),
                            f"{mode}: member {kidx} of axes {[sc['dists'][di]['param'] for di in kept]}"
                            f"{' averaged over ' + str([sc['dists'][di]['param'] for di in missing]) if missing else ''}: max|diff|={d:.3g} "
                            f"scale={s:.3g} {extra}")
                return
        run.note("members_compared", int(np.prod(lens)) if lens else 1)

    def guard(f, mode):
        try:
            return f()
        except (HarnessError, InjectedCrash):
            raise
        except Exception as e:  # noqa: BLE001
            run.violate("ensemble-run-succeeds", sig(sc, "raise", mode, {"exc": type(e).__name__}),
                        f"{mode} ensemble run raised {type(e).__name__}: {e} at {tb(e)} while all {nmembers} scalar runs succeed")
            return None

    dvals = {d["param"]: o for d, o in zip(sc["dists"], dobjs)}
    e = guard(lambda: run_pipeline(sc, dvals, lazy=False), "eager")
    if e is not None:
        check(e, "eager")
    sim = run.add_sim(Sim(ch, draw_sim_config(ch)))

    def lazy_run():
        fresh = {d["param"]: make_distribution(d) for d in sc["dists"]}
        with sim:
            return sim.compute(run_pipeline(sc, fresh, lazy=True, max_batch=knobs["max_batch"]))

    lz = guard(lazy_run, "lazy")
    sc["sim"] = sim.describe()
    if lz is not None:
        check(lz, "lazy")
    run.nontrivial = nmembers >= 2
    run.digest(next(iter(refs.values())))
