"""C02 -- a frozen-phonon ensemble equals independent per-configuration simulations (DESIGN 3, C02)."""
from __future__ import annotations

import numpy as np

from simkit import oracle, scene
from simkit.errors import HarnessError, InjectedCrash
from simkit.sim import Sim, draw_sim_config, reset_process_state
from simkit.util import tb

from . import C01

PROPERTY = "C02"
LEVEL = "exploration"
BUDGET = {"quick": (480, 150), "thorough": (12000, 1500)}
RULE = ("seeded scene with a FrozenPhonons / AtomsEnsemble potential (1-4 configurations, explicit or derived seeds, "
        "directions, ensemble_mean T/F, exit planes, scans, detectors). Reference for configuration k: displaced atoms from an "
        "independent model of the seeded displacement (explicit seeds) or from a fresh FrozenPhonons, a plain Potential of that "
        "configuration, the same incident wave, eager. Subjects: eager ensemble call; lazy ensemble call computed by SimScheduler "
        "(configuration blocks reordered / interleaved / recomputed); two different ensembles computed together in one dask graph; a lazy "
        "S-matrix (PRISM) over the ensemble potential against per-configuration S-matrix runs; in 40 % of the runs the process first works "
        "with a sibling ensemble (same atoms and seeds, other directions / sigmas). distinct = (scenario hash, schedule hash); non-trivial = >=2 "
        "configurations or a schedule with a real choice")
ASSUMPTIONS = ["model of the displacement: rng=default_rng(seed_k); r=rng.normal(size=(n,3)); pos[:,axis]+=sigma*r[:,axis] "
               "(the documented algorithm); checked against list(FrozenPhonons) to 1e-6 A (sigmas are stored in single precision)",
               "Waves outputs keep the configuration axis even with ensemble_mean=True (documented); other detectors are averaged"]
TECHNIQUE = "deterministic simulation: per-configuration reference vs eager and simulated-schedule lazy ensemble runs"
LEVEL_TEXT = ("seeded search over frozen-phonon scenes x knobs x simulated dask schedules; every ensemble member compared with an "
              "independent single-configuration eager run; evidence, not proof")
LEVEL_NOTE = "trusts the single-configuration eager multislice as reference; sampled, not enumerated"

warmup = C01.warmup


def model_displace(atoms, seed, sigma, directions):
    rng = np.random.default_rng(seed)
    r = rng.normal(size=(len(atoms), 3))
    a = atoms.copy()
    for ax, name in enumerate("xyz"):
        if name in directions:
            a.positions[:, ax] += sigma * r[:, ax]
    return a


def draw_scenario(ch):
    sc = C01.draw_scenario(ch, pot_kinds=("fp", "ensemble"), pot_weights=(3, 1))
    fp = sc["potential"]["fp"]
    if ch.bool(0.6, "explicit-seeds"):
        fp["seed"] = [ch.range(1, 10000, "seed-k") for _ in range(fp["num_configs"])]
    sc["gen_chunks"] = ch.range(1, max(1, fp["num_configs"]), "gen-chunks")
    sc["joint"] = ch.bool(0.4, "joint-compute")
    sc["prism"] = ch.bool(0.3, "prism")
    # a session, not a single call: before the ensemble under test, the same process works with a sibling ensemble (same atoms and
    # seeds, other directions / sigmas / number of configurations); what it leaves behind must not reach the ensemble under test
    sc["prelude"] = None
    if ch.bool(0.4, "prelude"):
        sc["prelude"] = {"directions": ch.pick([d for d in ("xyz", "xy", "z", "x") if d != fp["directions"]], "prelude-dir"),
                         "sigmas": ch.pick([fp["sigmas"], 0.15], "prelude-sigma"), "run": ch.bool(0.5, "prelude-run")}
    return sc


def make_fp(sc):
    p = sc["potential"]
    fp = dict(p["fp"])
    if isinstance(fp["seed"], list):
        fp["seed"] = tuple(fp["seed"])
    return scene.make_frozen_phonons(p["atoms"], fp)


def pipeline(sc, lazy, max_batch, atoms_override=None):
    import abtem

    p = sc["potential"]
    if atoms_override is not None:
        pot = scene.make_potential(p, atoms_override=atoms_override)
    else:
        fp = make_fp(sc)
        src = fp.to_atoms_ensemble() if p["kind"] == "ensemble" else fp
        if p["kind"] == "ensemble":
            # AtomsEnsemble has its own ensemble_mean flag
            src = abtem.AtomsEnsemble(list(fp), ensemble_mean=p["fp"]["ensemble_mean"])
        pot = abtem.Potential(src, gpts=tuple(p["gpts"]), slice_thickness=scene._st(p["slice_thickness"]),
                              projection=p["projection"], parametrization=p["parametrization"],
                              exit_planes=scene._ep(p["exit_planes"]))
    b = scene.make_builder(sc["builder"])
    dets = scene.make_detectors(sc["detectors"])
    if sc["builder"]["kind"] == "probe":
        scan = scene.make_scan(sc["scan"])
        if scan is None:
            return b.multislice(pot, detectors=dets, max_batch=max_batch, lazy=lazy)
        return b.scan(pot, scan=scan, detectors=dets, max_batch=max_batch, lazy=lazy)
    return b.multislice(pot, detectors=dets, max_batch=max_batch, lazy=lazy)


def as_list(x):
    return list(x) if isinstance(x, (list, tuple)) else [x]


def sig(sc, aspect, mode, extra=None):
    p = sc["potential"]
    s = {"aspect": aspect, "mode": mode, "pot": p["kind"], "ensemble_mean": p["fp"]["ensemble_mean"],
         "multi_config": p["fp"]["num_configs"] > 1, "exit_planes": p["exit_planes"] is not None,
         "dets": "+".join(sorted({d["kind"] for d in sc["detectors"]}))}
    if extra:
        s.update(extra)
    return s


def check_against_members(run, sc, mode, out, members, rtol, atol):
    """out: ensemble result (list per detector); members[k]: list per detector of single-config results"""
    n = len(members)
    mean = sc["potential"]["fp"]["ensemble_mean"]
    for di, o in enumerate(as_list(out)):
        arr = oracle.to_numpy(o.array)
        refs = [oracle.to_numpy(as_list(m)[di].array) for m in members]
        is_waves = type(o).__name__ == "Waves"
        if mean and not is_waves:
            want = np.mean(np.stack(refs), axis=0)
            if arr.shape != want.shape:
                run.violate("mean-equals-mean-of-members", sig(sc, "shape", mode), f"out{di} shape {arr.shape} != {want.shape}")
                continue
            ok, d, s = oracle.close(arr, want, rtol, atol)
            if not ok:
                run.violate("mean-equals-mean-of-members", sig(sc, "values", mode),
                            f"out{di} ({type(o).__name__}): max|diff|={d:.3g} scale={s:.3g} over {n} configurations")
        else:
            want = np.stack(refs)
            if arr.shape != want.shape:
                run.violate("per-config-equals-independent", sig(sc, "shape", mode), f"out{di} shape {arr.shape} != {want.shape}")
                continue
            for k in range(n):
                ok, d, s = oracle.close(arr[k], want[k], rtol, atol)
                if not ok:
                    run.violate("per-config-equals-independent", sig(sc, "values", mode, {"first_config_ok": k > 0}),
                                f"out{di} ({type(o).__name__}) configuration {k}/{n}: max|diff|={d:.3g} scale={s:.3g}")
                    break


def run_one(run):
    ch = run.ch
    sc = draw_scenario(ch)
    run.scenario = sc
    knobs = sc["knobs"]
    p = sc["potential"]
    fpr = p["fp"]
    n = fpr["num_configs"]
    rtol, atol = oracle.tol_for(knobs["precision"])
    wg = scene.wave_gpts(p)
    reset_process_state(scene.knob_overrides(knobs, wg))

    # ---- earlier work of the same process on a sibling ensemble ---------------------------------
    if sc.get("prelude"):
        import copy as _copy

        sib = _copy.deepcopy(sc)
        sib["potential"]["fp"].update(directions=sc["prelude"]["directions"], sigmas=sc["prelude"]["sigmas"])
        sib["prism"] = sib["joint"] = False
        try:
            sconfs = list(make_fp(sib))
            if isinstance(fpr["seed"], list):
                sbase = scene.make_atoms(p["atoms"])
                for k, (a, s) in enumerate(zip(sconfs, fpr["seed"])):
                    m = model_displace(sbase, s, sc["prelude"]["sigmas"], sc["prelude"]["directions"])
                    if np.abs(a.positions - m.positions).max() > 1e-6:
                        run.violate("configs-from-seeds", {"aspect": "model", "directions": sc["prelude"]["directions"], "session": "first"},
                                    f"sibling ensemble, configuration {k} (seed {s}) differs from the seeded displacement model")
                        break
            if sc["prelude"]["run"]:
                pipeline(sib, lazy=False, max_batch="auto")
            run.note("reach_prelude_session")
        except (HarnessError, InjectedCrash):
            raise
        except Exception:  # noqa: BLE001 - the sibling is only history; its own failures are not this run's subject
            run.note("prelude_raised")

    # ---- clause: configurations are determined by the seeds alone --------------------------------
    fp = make_fp(sc)
    confs = list(fp)
    base = scene.make_atoms(p["atoms"])
    if isinstance(fpr["seed"], list):
        for k, (a, s) in enumerate(zip(confs, fpr["seed"])):
            m = model_displace(base, s, fpr["sigmas"], fpr["directions"])
            if np.abs(a.positions - m.positions).max() > 1e-6:  # sigmas are stored in single precision
                run.violate("configs-from-seeds", {"aspect": "model", "directions": fpr["directions"], "after_prelude": bool(sc.get("prelude"))},
                            f"configuration {k} (seed {s}) differs from the seeded displacement model by "
                            f"{np.abs(a.positions - m.positions).max():.3g}")
                break
    again = list(make_fp(sc))
    ens = make_fp(sc).to_atoms_ensemble()
    views = {"second-construction": again, "to_atoms_ensemble": list(ens)}
    c = sc["gen_chunks"]
    blocks = []
    for _, _, blk in make_fp(sc).generate_blocks(c):
        blk = blk.item()
        blocks.extend(list(blk))
    views[f"generate_blocks({c})"] = blocks
    for name, lst in views.items():
        if len(lst) != len(confs):
            run.violate("configs-from-seeds", {"aspect": "count", "view": name.split("(")[0]}, f"{name}: {len(lst)} configurations != {len(confs)}")
            continue
        for k, (a, b) in enumerate(zip(confs, lst)):
            if np.abs(a.positions - b.positions).max() > 0 or (a.numbers != b.numbers).any():
                run.violate("configs-from-seeds", {"aspect": "positions", "view": name.split("(")[0]},
                            f"{name}: configuration {k} differs by {np.abs(a.positions - b.positions).max():.3g}")
                break
    if n > 1:
        dmin = min(np.abs(confs[i].positions - confs[j].positions).max() for i in range(n) for j in range(i))
        if dmin == 0:
            run.note("identical_configurations")
            if isinstance(fpr["seed"], list) and len(set(fpr["seed"])) == n:
                run.violate("configs-from-seeds", {"aspect": "distinct"}, "two configurations with distinct seeds are identical")

    # ---- reference: independent single-configuration runs ------------------------------------------
    try:
        members = [pipeline(sc, lazy=False, max_batch="auto", atoms_override=a) for a in confs]
    except (HarnessError, InjectedCrash):
        raise
    except Exception as e:  # noqa: BLE001
        run.invalid = True
        run.note("reference_raised")
        sc["reference_error"] = f"{type(e).__name__}: {e}"[:200]
        return
    # a single-configuration run through a plain Potential has no configuration axis
    # ---- subject 1: eager ensemble ------------------------------------------------------------------
    try:
        eager = pipeline(sc, lazy=False, max_batch="auto")
        check_against_members(run, sc, "eager", eager, members, rtol, atol)
    except (HarnessError, InjectedCrash):
        raise
    except Exception as e:  # noqa: BLE001
        run.violate("ensemble-run-succeeds", sig(sc, "raise", "eager", {"exc": type(e).__name__}),
                    f"eager ensemble run raised {type(e).__name__}: {e} at {tb(e)} while every per-configuration run succeeded")
    # ---- subject 2: lazy ensemble under the simulator -----------------------------------------------
    cfg = draw_sim_config(ch)
    sim = run.add_sim(Sim(ch, cfg))
    try:
        with sim:
            lz = pipeline(sc, lazy=True, max_batch=knobs["max_batch"])
            lz = sim.compute(lz)
        sc["sim"] = sim.describe()
        check_against_members(run, sc, "lazy", lz, members, rtol, atol)
    except (HarnessError, InjectedCrash):
        raise
    except Exception as e:  # noqa: BLE001
        run.violate("ensemble-run-succeeds", sig(sc, "raise", "lazy", {"exc": type(e).__name__}),
                    f"lazy ensemble run raised {type(e).__name__}: {e} at {tb(e)} while every per-configuration run succeeded")
    # ---- subject 3: two different ensembles computed together in one dask graph ------------------------------------
    if sc.get("joint"):
        import copy as _copy
        import dask

        sc2 = _copy.deepcopy(sc)
        s2 = sc2["potential"]["fp"]["seed"]
        sc2["potential"]["fp"]["seed"] = [x + 1000 for x in s2] if isinstance(s2, list) else s2 + 17
        try:
            members2 = [pipeline(sc2, lazy=False, max_batch="auto", atoms_override=a) for a in list(make_fp(sc2))]
        except (HarnessError, InjectedCrash):
            raise
        except Exception:  # noqa: BLE001
            members2 = None
        if members2 is not None:
            sim3 = run.add_sim(Sim(ch, draw_sim_config(ch)))
            try:
                with sim3:
                    la, lb = as_list(pipeline(sc, lazy=True, max_batch=knobs["max_batch"])), as_list(pipeline(sc2, lazy=True, max_batch=knobs["max_batch"]))
                    arrays = dask.compute(*[x.array for x in la + lb], optimize_graph=sim3.optimize_graph)
                for x, arr in zip(la + lb, arrays):
                    x._array = arr
                check_against_members(run, sc, "lazy-joint", la, members, rtol, atol)
                check_against_members(run, sc2, "lazy-joint", lb, members2, rtol, atol)
                run.note("reach_joint_compute")
            except (HarnessError, InjectedCrash):
                raise
            except Exception as e:  # noqa: BLE001
                run.violate("ensemble-run-succeeds", sig(sc, "raise", "lazy-joint", {"exc": type(e).__name__}),
                            f"joint compute of two ensembles raised {type(e).__name__}: {e} at {tb(e)}")
    # ---- subject 4: an S-matrix over the ensemble potential (PRISM), lazily, against per-configuration S-matrix runs ---------------
    if sc.get("prism") and sc["builder"]["kind"] == "probe" and sc["scan"]["kind"] != "none" and p["exit_planes"] is None:
        import abtem

        def prism(pot, lazy):
            s = abtem.SMatrix(potential=pot, energy=sc["builder"]["energy"], semiangle_cutoff=sc["builder"]["semiangle_cutoff"],
                              interpolation=1, downsample=False)
            return s.scan(scan=scene.make_scan(sc["scan"]), detectors=scene.make_detectors(sc["detectors"]), lazy=lazy)

        try:
            pmembers = [prism(scene.make_potential(p, atoms_override=a), False) for a in confs]
        except (HarnessError, InjectedCrash):
            raise
        except Exception:  # noqa: BLE001
            pmembers = None
        if pmembers is not None:
            sim4 = run.add_sim(Sim(ch, draw_sim_config(ch)))
            try:
                with sim4:
                    fp4 = make_fp(sc)
                    src = abtem.AtomsEnsemble(list(fp4), ensemble_mean=p["fp"]["ensemble_mean"]) if p["kind"] == "ensemble" else fp4
                    pot4 = abtem.Potential(src, gpts=tuple(p["gpts"]), slice_thickness=scene._st(p["slice_thickness"]),
                                           projection=p["projection"], parametrization=p["parametrization"])
                    lz4 = sim4.compute(prism(pot4, True))
                check_against_members(run, sc, "lazy-prism", lz4, pmembers, max(rtol, 1e-6), atol)
                run.note("reach_prism_ensemble")
            except (HarnessError, InjectedCrash):
                raise
            except Exception as e:  # noqa: BLE001
                run.violate("ensemble-run-succeeds", sig(sc, "raise", "lazy-prism", {"exc": type(e).__name__}),
                            f"lazy SMatrix.scan over the ensemble potential raised {type(e).__name__}: {e} at {tb(e)}")
    if n > 1:
        run.nontrivial = True
        run.note("reach_multi_config")
    run.digest(*[oracle.to_numpy(x.array) for x in as_list(members[0])])
