"""C07 -- thickness series are consistent with truncated simulations (DESIGN 3, C07)."""
from __future__ import annotations

import numpy as np

from simkit import oracle, scene
from simkit.errors import HarnessError, InjectedCrash
from simkit.sim import Sim, draw_sim_config, park_config, park_profile_config, reset_process_state
from simkit.util import tb

from . import C01

PROPERTY = "C07"
LEVEL = "exploration"
BUDGET = {"quick": (480, 160), "thorough": (12000, 1600)}
RULE = ("seeded potential (Atoms / built PotentialArray / FrozenPhonons with 1-3 configurations) with several exit planes (integer "
        "stride or explicit tuple, with and without the entrance plane, uneven slices), builder (Probe / PlaneWave), scan and detectors. "
        "Route A reference for exit plane after slice e: a freshly constructed PotentialArray(full[:e+1], thickness[:e+1]) without exit "
        "planes simulated separately (eager); entrance plane: the detected incident wave; route B (own clause): the same truncation "
        "through built_potential[:e+1]. Subjects: the eager thickness series and the lazy one computed by SimScheduler. Also: thickness "
        "axis = cumulative thickness of every exit plane; last plane = full run. distinct = (scenario hash, schedule hash); "
        "non-trivial = >= 2 exit planes compared")
ASSUMPTIONS = ["route A trusts a single-exit-plane eager multislice through a freshly constructed PotentialArray",
               "ensemble_mean results are compared with the mean of the per-configuration truncated runs"]
TECHNIQUE = "deterministic simulation: thickness series (eager and simulated-schedule lazy) vs separately simulated truncated potentials"
LEVEL_TEXT = "seeded search over exit-plane layouts x builders x detectors x simulated schedules with truncated-potential references"
LEVEL_NOTE = "sampled; trusts eager multislice through a fresh truncated PotentialArray"

warmup = C01.warmup


def draw_scenario(ch):
    sc = C01.draw_scenario(ch, pot_kinds=("atoms", "array", "fp"), pot_weights=(3, 2, 2))
    p = sc["potential"]
    ns = p["num_slices"]
    if ns < 2:
        p["slice_thickness"] = ch.pick([1.0, 0.5], "slice-thickness-2")
        ns = p["num_slices"] = scene.num_slices_of(p["slice_thickness"], p["atoms"]["cell"][2])
    if p["exit_planes"] is None:
        p["exit_planes"] = scene.draw_exit_planes(ch, ns, p_multi=1.0)
    if "fp" in p:
        p["fp"]["num_configs"] = min(p["fp"]["num_configs"], 3)
    sc["post"] = None
    # session: the lazy series may be the first thing the process does with these exit planes (module-level state is cold), and
    # an earlier series with OTHER exit planes on the same potential may have been run and dropped before
    sc["lazy_first"] = ch.bool(0.5, "lazy-first")
    sc["race"] = ch.bool(0.4, "race-schedule")
    sc["prelude_planes"] = scene.draw_exit_planes(ch, ns, p_multi=1.0) if ch.bool(0.4, "prelude") else None
    if sc["prelude_planes"] == p["exit_planes"]:
        sc["prelude_planes"] = None
    return sc


def plane_indices(ep, ns):
    """slice index e (result after slices 0..e) per exit plane; -1 = entrance"""
    if isinstance(ep, int):
        # documented: "a measurement every `exit_planes` slices"; the library also records the entrance plane then
        if ep >= ns:
            return [ns - 1]
        out = list(range(ep - 1, ns, ep))
        if out[-1] != ns - 1:
            out.append(ns - 1)
        return [-1] + out
    return list(ep)


def run_builder(sc, pot, lazy, max_batch="auto"):
    b = scene.make_builder(sc["builder"])
    dets = scene.make_detectors(sc["detectors"])
    if sc["builder"]["kind"] == "probe":
        scan = scene.make_scan(sc["scan"])
        if scan is None:
            return b.multislice(pot, detectors=dets, max_batch=max_batch, lazy=lazy)
        return b.scan(pot, scan=scan, detectors=dets, max_batch=max_batch, lazy=lazy)
    return b.multislice(pot, detectors=dets, max_batch=max_batch, lazy=lazy)


def incident_detect(sc, extent, gpts):
    """the detected incident wave (entrance plane)"""
    b = scene.make_builder(sc["builder"], extent=tuple(extent), gpts=tuple(gpts))
    dets = scene.make_detectors(sc["detectors"])
    dets = dets if isinstance(dets, list) else [dets]
    if sc["builder"]["kind"] == "probe":
        scan = scene.make_scan(sc["scan"])
        w = b.build(scan=scan, lazy=False) if scan is not None else b.build(lazy=False)
    else:
        w = b.build(lazy=False)
    return [d.detect(w) for d in dets]


def as_list(x):
    return list(x) if isinstance(x, (list, tuple)) else [x]


def sig(sc, aspect, mode, extra=None):
    p = sc["potential"]
    ep = p["exit_planes"]
    s = {"aspect": aspect, "mode": mode, "pot": p["kind"], "entrance": isinstance(ep, int) or ep[0] == -1,
         "explicit": not isinstance(ep, int), "dets": "+".join(sorted({d["kind"] for d in sc["detectors"]}))}
    if extra:
        s.update(extra)
    return s


def run_one(run):
    import abtem

    ch = run.ch
    sc = draw_scenario(ch)
    run.scenario = sc
    p = sc["potential"]
    knobs = sc["knobs"]
    rtol, atol = oracle.tol_for(knobs["precision"])
    wg = scene.wave_gpts(p)
    reset_process_state(scene.knob_overrides(knobs, wg))
    ns = p["num_slices"]
    planes = plane_indices(p["exit_planes"], ns)
    sc["planes"] = planes
    extent = scene.potential_extent(p)

    # ---- earlier work of the same process: a series with other exit planes through the same potential, then dropped --------
    if sc["prelude_planes"] is not None:
        import gc

        try:
            pre = run_builder(sc, scene.make_potential(p, exit_planes=scene._ep(sc["prelude_planes"])), lazy=False)
            del pre
        except (HarnessError, InjectedCrash):
            raise
        except Exception:  # noqa: BLE001 - only history
            run.note("prelude_raised")
        gc.collect()
        run.note("reach_prelude_session")

    # ---- the lazy series, computed before anything else touches these exit planes (checked below) ---------------------------
    early = None
    if sc["lazy_first"]:
        sim0 = run.add_sim(Sim(ch, draw_sim_config(ch, force_threads=sc["race"], write_preempt="park" if sc["race"] else None)))
        try:
            with sim0:
                early = ("ok", sim0.compute(run_builder(sc, scene.make_potential(p), lazy=True, max_batch=knobs["max_batch"])))
        except (HarnessError, InjectedCrash):
            raise
        except Exception as e:  # noqa: BLE001
            early = ("raise", e)
        sc["sim"] = sim0.describe()

    # ---- configurations and their full (no exit plane) built arrays ------------------------------------------------
    try:
        if "fp" in p and p["kind"] == "fp":
            confs = list(scene.make_frozen_phonons(p["atoms"], p["fp"]))
            mean = p["fp"]["ensemble_mean"]
        else:
            confs = [scene.make_atoms(p["atoms"])]
            mean = None
        fulls = [scene.make_potential(p, atoms_override=a, exit_planes=None).build(lazy=False) for a in confs]
        thick = tuple(fulls[0].slice_thickness)
        # ---- route A references: one separate simulation per (configuration, plane) --------------------------------------
        refs = []  # refs[k][pi] = list per detector
        for full in fulls:
            row = []
            for e in planes:
                if e == -1:
                    row.append(incident_detect(sc, extent, p["gpts"]))
                else:
                    trunc = abtem.PotentialArray(np.array(full.array[: e + 1]), slice_thickness=thick[: e + 1], extent=tuple(extent))
                    row.append(as_list(run_builder(sc, trunc, lazy=False)))
            refs.append(row)
        full_run = [as_list(run_builder(sc, abtem.PotentialArray(np.array(f.array), slice_thickness=thick, extent=tuple(extent)), lazy=False))
                    for f in fulls]
    except (HarnessError, InjectedCrash):
        raise
    except Exception as e:  # noqa: BLE001
        run.invalid = True
        run.note("reference_raised")
        sc["reference_error"] = f"{type(e).__name__}: {e} at {tb(e)}"[:300]
        return

    cum = np.cumsum(thick)
    want_thickness = [0.0 if e == -1 else float(cum[e]) for e in planes]

    def check_series(series, mode):
        outs = as_list(series)
        for di, o in enumerate(outs):
            arr = oracle.to_numpy(o.array)
            axes = list(o.ensemble_axes_metadata)
            tax = [i for i, a in enumerate(axes) if type(a).__name__ == "ThicknessAxis"]
            if len(tax) != 1:
                run.violate("thickness-axis", sig(sc, "missing", mode), f"out{di}: {len(tax)} thickness axes in {[type(a).__name__ for a in axes]}")
                return
            ti = tax[0]
            vals = tuple(float(v) for v in axes[ti].values)
            if len(vals) != len(planes) or not np.allclose(vals, want_thickness, rtol=1e-6, atol=1e-9):
                run.violate("thickness-axis", sig(sc, "values", mode), f"out{di}: thickness axis {vals} != cumulative thickness {want_thickness}")
                return
            has_conf_axis = ti == 1  # (configurations, planes, ...)
            is_waves = type(o).__name__ == "Waves"
            nconf = len(confs)
            for pi, e in enumerate(planes):
                if ti == 0:
                    got = arr[pi]
                    want = [oracle.to_numpy(refs[k][pi][di].array) for k in range(nconf)]
                    want = want[0] if nconf == 1 else np.mean(np.stack(want), axis=0)
                else:
                    got = arr[:, pi]
                    want = np.stack([oracle.to_numpy(refs[k][pi][di].array) for k in range(nconf)])
                if got.shape != want.shape:
                    run.violate("plane-equals-truncated", sig(sc, "shape", mode), f"out{di} plane {pi} (after slice {e}): shape {got.shape} != {want.shape}")
                    return
                ok, d, s = oracle.close(got, want, rtol, atol)
                if not ok:
                    clause = "entrance-equals-incident" if e == -1 else ("last-equals-full" if e == ns - 1 else "plane-equals-truncated")
                    run.violate(clause, sig(sc, "values", mode, {"plane": "entrance" if e == -1 else ("last" if e == ns - 1 else "inner")}),
                                f"out{di} ({type(o).__name__}) plane {pi} (after slice {e} of {ns}): max|diff|={d:.3g} scale={s:.3g}")
                    return
                run.note("planes_compared")
            # last plane = full run without exit planes
            if planes[-1] == ns - 1:
                if ti == 0:
                    got = arr[-1]
                    want = [oracle.to_numpy(full_run[k][di].array) for k in range(nconf)]
                    want = want[0] if nconf == 1 else np.mean(np.stack(want), axis=0)
                else:
                    got = arr[:, -1]
                    want = np.stack([oracle.to_numpy(full_run[k][di].array) for k in range(nconf)])
                if got.shape == want.shape:
                    ok, d, s = oracle.close(got, want, rtol, atol)
                    if not ok:
                        run.violate("last-equals-full", sig(sc, "values", mode, {"plane": "last"}), f"out{di}: last exit plane differs from the full run by {d:.3g}")

    # ---- subjects --------------------------------------------------------------------------------------------------------
    def eager_subject():
        try:
            eager = run_builder(sc, scene.make_potential(p), lazy=False)
            check_series(eager, "eager")
        except (HarnessError, InjectedCrash):
            raise
        except Exception as e:  # noqa: BLE001
            run.violate("series-succeeds", sig(sc, "raise", "eager", {"exc": type(e).__name__}), f"eager: {type(e).__name__}: {e} at {tb(e)}")

    def lazy_subject():
        if early is not None:
            if early[0] == "ok":
                check_series(early[1], "lazy")
            else:
                e = early[1]
                run.violate("series-succeeds", sig(sc, "raise", "lazy", {"exc": type(e).__name__}), f"lazy: {type(e).__name__}: {e} at {tb(e)}")
            return
        # race runs: a profiling multi-worker schedule that counts the stores into shared objects, then one task delayed at one of them
        cands = None
        for step in range(2 if sc["race"] else 1):
            if not sc["race"]:
                cfg = draw_sim_config(ch)
            elif step == 0:
                cfg = park_profile_config(ch)
            else:
                cfg = park_config(ch, cands) if cands else draw_sim_config(ch, force_threads=True, write_preempt=True)
            sim = run.add_sim(Sim(ch, cfg))
            try:
                with sim:
                    lz = sim.compute(run_builder(sc, scene.make_potential(p), lazy=True, max_batch=knobs["max_batch"]))
                sc["sim"] = sim.describe()
                check_series(lz, "lazy")
            except (HarnessError, InjectedCrash):
                raise
            except Exception as e:  # noqa: BLE001
                run.violate("series-succeeds", sig(sc, "raise", "lazy", {"exc": type(e).__name__}), f"lazy: {type(e).__name__}: {e} at {tb(e)}")
                break
            cands = sim.sched.stats.park_candidates

    for subject in ((lazy_subject, eager_subject) if sc["lazy_first"] else (eager_subject, lazy_subject)):
        subject()

    # ---- route B: truncation through the public indexing of a built potential (its own clause) -------------------------------
    if ch.bool(0.5, "route-b") and len(confs) == 1:
        e = planes[-2] if len(planes) > 1 and planes[-2] >= 0 else planes[-1]
        pi = planes.index(e)
        try:
            built = scene.make_potential(p, atoms_override=confs[0]).build(lazy=False)
            sub = built[: e + 1]
            got = as_list(run_builder(sc, sub, lazy=False))
            for di, g in enumerate(got):
                garr = oracle.to_numpy(g.array)
                want = oracle.to_numpy(refs[0][pi][di].array)
                # a truncated potential that still carries exit planes returns a (shorter) series: compare its last entry
                if garr.shape != want.shape and garr.ndim == want.ndim + 1:
                    garr = garr[-1]
                if garr.shape != want.shape:
                    run.violate("truncate-by-indexing", sig(sc, "shape", "eager"), f"built[:{e + 1}] run: shape {garr.shape} != {want.shape}")
                    break
                ok, d, s = oracle.close(garr, want, rtol, atol)
                if not ok:
                    run.violate("truncate-by-indexing", sig(sc, "values", "eager", {"all_zero": bool(np.all(garr == 0))}),
                                f"simulating through built_potential[:{e + 1}] differs from a fresh truncated potential: max|diff|={d:.3g} scale={s:.3g}"
                                + (" (result is all zeros)" if np.all(garr == 0) else ""))
                    break
        except (HarnessError, InjectedCrash):
            raise
        except Exception as ex:  # noqa: BLE001
            run.violate("truncate-by-indexing", sig(sc, "raise", "eager", {"exc": type(ex).__name__}), f"built[:{e + 1}]: {type(ex).__name__}: {ex} at {tb(ex)}")
    run.nontrivial = len(planes) >= 2
    run.digest(oracle.to_numpy(full_run[0][0].array))
