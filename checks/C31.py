"""C31 -- Poisson noise is valid, independent and reproducible (DESIGN 3, C31)."""
from __future__ import annotations

import numpy as np

from simkit import oracle
from simkit.errors import HarnessError, InjectedCrash
from simkit.sim import Sim, draw_sim_config, reset_process_state
from simkit.util import tb

PROPERTY = "C31"
LEVEL = "exploration"
BUDGET = {"quick": (1600, 150), "thorough": (60000, 1500)}
RULE = ("seeded measurement (Images / DiffractionPatterns / PolarMeasurements / RealSpaceLineProfiles; 0-2 ensemble axes; constant or "
        "random non-negative signal) x dose (total_dose scalar, dose_per_area for images) x samples 1-3 x explicit seed x chunking of "
        "the ensemble axes (single block, one member per block, uneven). Clauses: counts are non-negative whole numbers; same seed twice "
        "-> identical; lazy computed by SimScheduler with any chunking / block order = eager; the same seeded lazy object computed a second "
        "time, and a fresh one under another (multi-worker, interleaved) schedule, give identical counts; on constant-signal ensembles no two "
        "members share a noise field and their correlation is below 8 sigma of its null distribution; total counts within 8 sigma of "
        "dose x signal. distinct = (scenario hash, schedule hash); non-trivial = >= 2 members or >= 2 blocks")
ASSUMPTIONS = ["statistical bounds at 8 sigma (false-alarm probability < 1e-14 per test)",
               "independence is tested on members whose expected total count is >= 200 and that have >= 64 pixels"]
TECHNIQUE = "deterministic simulation: seeded chunkings and block orders of the noise transform vs eager reference + statistical oracles"
LEVEL_TEXT = "seeded search over measurement ensembles x chunkings x simulated block orders; eager reference and 8-sigma statistics"
LEVEL_NOTE = "sampled; statistical clauses use 8-sigma bounds; the RNG itself (numpy) is trusted"


def warmup():
    import abtem  # noqa: F401


def draw_scenario(ch):
    t = ch.pick(["Images", "DiffractionPatterns", "PolarMeasurements", "RealSpaceLineProfiles"], "type")
    naxes = ch.pick([0, 1, 1, 2], "n-axes")
    ens = [ch.range(1, 4, "axis-len") for _ in range(naxes)]
    base = {"Images": [ch.pick([8, 12, 16], "nx"), ch.pick([8, 10], "ny")], "DiffractionPatterns": [ch.pick([8, 12], "nx"), 8],
            "PolarMeasurements": [ch.pick([6, 10], "nr"), ch.pick([1, 4, 12], "na")], "RealSpaceLineProfiles": [ch.pick([16, 64], "n")]}[t]
    sc = {"type": t, "ensemble": ens, "base": base, "signal": ch.pick(["constant", "random", "with-zeros"], "signal"),
          "level": ch.pick([1.0, 0.05, 3.0], "level"), "dose_kind": "total_dose", "dose": ch.pick([100.0, 1e4, 5.0, 1e6], "dose"),
          "samples": ch.pick([1, 1, 2, 3], "samples"), "seed": ch.range(0, 100000, "seed"), "data_seed": ch.subseed("data"),
          "precision": "float64" if ch.bool(0.5, "float64") else "float32"}
    if t == "Images" and ch.bool(0.3, "dose-per-area"):
        sc["dose_kind"] = "dose_per_area"
    elif ch.bool(0.3, "dose-series"):
        # a dose series adds a leading 'Dose' ensemble axis; equal doses are allowed (they must still be independent)
        sc["dose_series"] = [ch.pick([100.0, 1e4, 500.0], "dose-k") for _ in range(ch.range(2, 3, "n-doses"))]
    # chunking of the ensemble axes for the lazy subject
    chunks = []
    for n in ens:
        kind = ch.pick(["all", "ones", "uneven"], "chunk-kind")
        if kind == "all" or n == 1:
            chunks.append([n])
        elif kind == "ones":
            chunks.append([1] * n)
        else:
            k = ch.range(1, n - 1, "chunk-split")
            chunks.append([k, n - k])
    sc["chunks"] = chunks
    return sc


def make_measurement(sc, lazy=False):
    import abtem.measurements as M
    from abtem.core.axes import OrdinalAxis, ScanAxis

    rng = np.random.default_rng(sc["data_seed"])
    shape = tuple(sc["ensemble"]) + tuple(sc["base"])
    dtype = sc["precision"]
    if sc["signal"] == "constant":
        arr = np.full(shape, sc["level"], dtype=dtype)
    else:
        arr = (rng.random(shape) * sc["level"]).astype(dtype)
        if sc["signal"] == "with-zeros":
            arr[..., 0] = 0.0
    axes = []
    for i, n in enumerate(sc["ensemble"]):
        axes.append(ScanAxis(label="xy"[i % 2], sampling=0.5, units="Å") if sc["type"] in ("Images", "DiffractionPatterns") and len(sc["ensemble"]) == 2
                    else OrdinalAxis(label="p", values=tuple(float(j) for j in range(n))))
    t = sc["type"]
    if t == "Images":
        m = M.Images(arr, sampling=0.2, ensemble_axes_metadata=axes)
    elif t == "DiffractionPatterns":
        m = M.DiffractionPatterns(arr, sampling=0.05, fftshift=True, ensemble_axes_metadata=axes)
    elif t == "PolarMeasurements":
        m = M.PolarMeasurements(arr, radial_sampling=1.0, azimuthal_sampling=2 * np.pi / sc["base"][1], ensemble_axes_metadata=axes)
    else:
        m = M.RealSpaceLineProfiles(arr, sampling=0.1, ensemble_axes_metadata=axes)
    if lazy:
        ch = tuple(tuple(c) for c in sc["chunks"]) + tuple((n,) for n in sc["base"])
        m = m.ensure_lazy(chunks=ch) if len(shape) else m.ensure_lazy()
    return m, arr


def noisy(sc, m):
    kw = {sc["dose_kind"]: sc["dose"]}
    if sc.get("dose_series"):
        kw = {"total_dose": list(sc["dose_series"])}
    return m.poisson_noise(samples=sc["samples"], seed=sc["seed"], **kw)


def sig(sc, aspect, mode, extra=None):
    nblocks = int(np.prod([len(c) for c in sc["chunks"]])) if sc["chunks"] else 1
    s = {"aspect": aspect, "mode": mode, "multi_block": (nblocks > 1) if mode == "lazy" else False, "samples": sc["samples"] > 1}
    if extra:
        s.update(extra)
    return s


def run_one(run):
    ch = run.ch
    sc = draw_scenario(ch)
    run.scenario = sc
    reset_process_state({"precision": sc["precision"]})
    nblocks = int(np.prod([len(c) for c in sc["chunks"]])) if sc["chunks"] else 1
    nmembers = int(np.prod(sc["ensemble"])) if sc["ensemble"] else 1

    def guard(f, mode):
        try:
            return f()
        except (HarnessError, InjectedCrash):
            raise
        except Exception as e:  # noqa: BLE001
            run.violate("noise-succeeds", sig(sc, "raise", mode, {"exc": type(e).__name__}), f"{mode}: {type(e).__name__}: {e} at {tb(e)}")
            return None

    m, signal = make_measurement(sc)
    if sc["dose_kind"] == "dose_per_area":
        rate = signal.astype(float) * sc["dose"] * 0.2 * 0.2
    else:
        rate = signal.astype(float) * sc["dose"]
    series = sc.get("dose_series")
    if series:
        rate = np.stack([signal.astype(float) * d for d in series])
    e1 = guard(lambda: noisy(sc, m), "eager")
    if e1 is None:
        return
    a1 = oracle.to_numpy(e1.array)
    if not np.array_equal(oracle.to_numpy(m.array), signal):
        run.violate("input-unchanged", sig(sc, "values", "eager"), "poisson_noise modified the receiver's array")
    want_shape = ((len(series),) if series else ()) + ((sc["samples"],) if sc["samples"] > 1 else ()) + signal.shape
    if a1.shape != want_shape:
        run.violate("valid-counts", sig(sc, "shape", "eager"), f"shape {a1.shape} != {want_shape}")
        return
    # ---- (a) non-negative whole counts --------------------------------------------------------------------------
    for name, a in (("eager", a1),):
        if (a < 0).any() or not np.array_equal(a, np.round(a)) or not np.isfinite(a).all():
            run.violate("valid-counts", sig(sc, "values", name), f"{name}: counts are not non-negative whole numbers (min {a.min()}, "
                        f"max frac {np.abs(a - np.round(a)).max()})")
    # ---- (e) expectation -----------------------------------------------------------------------------------------------
    tot_rate = float(rate.sum()) * (sc["samples"])
    tot = float(a1.astype(float).sum())
    if abs(tot - tot_rate) > 8 * np.sqrt(tot_rate) + 1 + 1e-6 * tot_rate:
        run.violate("expectation", sig(sc, "total", "eager", {"dose_kind": sc["dose_kind"]}),
                    f"total counts {tot:.6g} vs dose x signal {tot_rate:.6g} (8 sigma = {8 * np.sqrt(tot_rate):.3g})")
    rate_b = rate if not (series and sc["samples"] > 1) else np.repeat(rate[:, None], sc["samples"], axis=1)
    zero = np.broadcast_to(rate_b == 0, a1.shape)
    if zero.any() and (a1[zero] != 0).any():
        run.violate("expectation", sig(sc, "zero-signal", "eager"), "counts where the signal is zero")
    # ---- (b) reproducible ---------------------------------------------------------------------------------------------------
    m2, _ = make_measurement(sc)
    e2 = guard(lambda: noisy(sc, m2), "eager")
    if e2 is not None and not np.array_equal(oracle.to_numpy(e2.array), a1):
        run.violate("reproducible", sig(sc, "values", "eager"), "same seed twice gives different counts (eager)")
    # ---- (c) lazy = eager whatever the chunking -----------------------------------------------------------------------------
    sim = run.add_sim(Sim(ch, draw_sim_config(ch, light=True)))

    keep = {}

    def lazy_run():
        import dask

        ml, _ = make_measurement(sc, lazy=True)
        with sim:
            obj = noisy(sc, ml)
            keep["obj"] = obj
            arr = dask.compute(obj.array, optimize_graph=sim.optimize_graph)[0]
        out = obj.copy()
        out._array = arr
        return out

    lz = guard(lazy_run, "lazy")
    la = None
    # ---- (f) a seeded lazy result is a function of the seed: computing the same lazy object again, or a fresh one under
    #          another schedule (several workers, finely interleaved), gives the identical counts ------------------------------
    if lz is not None:
        import dask

        first = oracle.to_numpy(lz.array)
        sim2 = run.add_sim(Sim(ch, draw_sim_config(ch, light=True, allow_recompute=False, force_threads=nblocks >= 2)))

        def again():
            with sim2:
                return dask.compute(keep["obj"].array, optimize_graph=sim2.optimize_graph)[0]

        second = guard(again, "lazy-recompute")
        if second is not None and not np.array_equal(oracle.to_numpy(second), first):
            run.violate("lazy-reproducible", sig(sc, "values", "lazy", {"how": "same-object-recomputed"}),
                        f"the same seeded lazy result computed twice differs in {float((oracle.to_numpy(second) != first).mean()):.0%} of the pixels "
                        f"(chunks {sc['chunks']}, second schedule {sim2.describe()})")
        sim3 = run.add_sim(Sim(ch, draw_sim_config(ch, light=True, allow_recompute=False, force_threads=nblocks >= 2)))

        def fresh():
            ml, _ = make_measurement(sc, lazy=True)
            with sim3:
                return dask.compute(noisy(sc, ml).array, optimize_graph=sim3.optimize_graph)[0]

        third = guard(fresh, "lazy-other-schedule")
        if third is not None and not np.array_equal(oracle.to_numpy(third), first):
            run.violate("lazy-reproducible", sig(sc, "values", "lazy", {"how": "other-schedule"}),
                        f"a fresh seeded lazy result under another schedule differs in {float((oracle.to_numpy(third) != first).mean()):.0%} of the pixels "
                        f"(chunks {sc['chunks']}, schedules {sim.describe()} vs {sim3.describe()})")
        run.note("reach_lazy_reproducibility")
    if lz is not None:
        la = oracle.to_numpy(lz.array)
        if la.shape != a1.shape:
            run.violate("lazy-equals-eager", sig(sc, "shape", "lazy"), f"lazy shape {la.shape} != eager {a1.shape}")
            la = None
        else:
            if (la < 0).any() or not np.array_equal(la, np.round(la)):
                run.violate("valid-counts", sig(sc, "values", "lazy"), "lazy: counts are not non-negative whole numbers")
            if not np.array_equal(la, a1):
                frac = float((la != a1).mean())
                run.violate("lazy-equals-eager", sig(sc, "values", "lazy"),
                            f"lazy (chunks {sc['chunks']}, {nblocks} blocks) differs from eager with the same seed in {frac:.0%} of the pixels")
            m_ax = oracle.axes_equal(e1.axes_metadata, lz.axes_metadata)
            if m_ax:
                run.violate("lazy-equals-eager", sig(sc, "axes", "lazy"), m_ax)
    # ---- (d) independence between members -----------------------------------------------------------------------------------------
    npix = int(np.prod(sc["base"]))
    member_rate = float(rate.reshape(-1, npix)[0].sum()) if rate.size else 0.0
    if series and sc["signal"] == "constant":
        member_rate = float(min(series)) * float(signal.reshape(-1, npix)[0].sum())
    if sc["signal"] == "constant" and npix >= 64 and member_rate >= 200:
        for name, a in (("eager", a1), ("lazy", la)):
            if a is None:
                continue
            mem = a.reshape(-1, npix).astype(float)
            if mem.shape[0] < 2:
                continue
            run.note("independence_tests")
            done = False
            for i in range(mem.shape[0]):
                for j in range(i):
                    if np.array_equal(mem[i], mem[j]):
                        run.violate("independent-members", sig(sc, "identical", name),
                                    f"{name}: members {j} and {i} of the ensemble received the identical noise field")
                        done = True
                        break
                    x, y = mem[i] - mem[i].mean(), mem[j] - mem[j].mean()
                    den = np.sqrt((x * x).sum() * (y * y).sum())
                    if den > 0:
                        r = float((x * y).sum() / den)
                        if abs(r) > 8 / np.sqrt(npix):
                            run.violate("independent-members", sig(sc, "correlated", name),
                                        f"{name}: members {j},{i} correlation {r:.3f} > 8/sqrt({npix})")
                            done = True
                            break
                if done:
                    break
    run.nontrivial = nmembers >= 2 or nblocks >= 2
    if nblocks >= 2:
        run.note("reach_multi_block")
    run.digest(a1)
