"""C29 -- array-object structural operations keep data and metadata aligned (DESIGN 3, C29)."""
from __future__ import annotations

import copy

import numpy as np

from simkit import oracle
from simkit.errors import HarnessError, InjectedCrash
from simkit.sim import Sim, draw_sim_config, reset_process_state
from simkit.util import tb

PROPERTY = "C29"
LEVEL = "exploration"
BUDGET = {"quick": (4000, 150), "thorough": (150000, 1500)}
RULE = ("history machine over Waves / Images / DiffractionPatterns / PolarMeasurements / RealSpaceLineProfiles with 1-3 ensemble axes "
        "(ordinal, parameter, scan, unknown), eager or lazy with drawn chunks: 1-6 operations from {index (ints, negative ints, slices "
        "with steps, integer lists, None), stack, concatenate, squeeze, expand_dims, sum / mean / std / min / max over ensemble axes "
        "(drawn split_every), arithmetic with scalars / broadcastable arrays / objects, attempted reduction or indexing of base axes}. "
        "Reference model: a NumPy array plus a list of axis records. After every operation (lazy results computed by SimScheduler): "
        "values equal the NumPy result, exactly one axis-metadata entry per dimension, ordinal values follow the selection, an integer "
        "index moves the item's value into the metadata, base-axis reduce / index is refused. distinct = (program hash, schedule "
        "hash); non-trivial = >= 2 operations applied")
ASSUMPTIONS = ["reductions compared at rtol 1e-6 (float64) / 2e-4 (float32) (different summation order); everything else exactly",
               "for linear (scan) axes only the sampling is tracked through slicing (the offset of a slice is not part of the statement)"]
TECHNIQUE = "deterministic simulation: seeded operation histories on eager and simulated-schedule lazy objects vs a NumPy + axis-record model"
LEVEL_TEXT = "seeded search over object types x operation histories x chunkings x simulated schedules against an executable reference model"
LEVEL_NOTE = "sampled, histories <= 6 operations; the reference model is hand-written NumPy"

TYPES = ["Images", "Waves", "DiffractionPatterns", "PolarMeasurements", "RealSpaceLineProfiles"]


def warmup():
    import abtem  # noqa: F401


def draw_program(ch):
    t = ch.pick(TYPES, "type")
    naxes = ch.range(1, 3, "n-axes")
    axes = []
    for i in range(naxes):
        kind = ch.pick(["ordinal", "parameter", "scan", "unknown"], "axis-kind")
        axes.append({"kind": kind, "n": ch.range(1, 4, "axis-len"), "label": f"a{i}"})
    prog = {"type": t, "axes": axes, "seed": ch.subseed("data"), "lazy": ch.pick(["eager", "lazy", "lazy-ones"], "laziness"),
            "precision": "float64" if ch.bool(0.5, "float64") else "float32", "ops": []}
    for _ in range(ch.range(1, 6, "n-ops")):
        prog["ops"].append({"op": ch.pick(["index", "index", "reduce", "arith", "stack", "concatenate", "squeeze", "expand_dims",
                                           "reduce-base", "index-base"], "op", weights=[4, 3, 4, 3, 2, 2, 1, 1, 0.5, 0.5]),
                            "r": [ch.int(1000, "r") for _ in range(6)]})
    return prog


def base_shape(t):
    return {"Images": (5, 4), "Waves": (6, 4), "DiffractionPatterns": (4, 4), "PolarMeasurements": (3, 2), "RealSpaceLineProfiles": (7,)}[t]


def make_axis(rec):
    from abtem.core.axes import OrdinalAxis, ParameterAxis, ScanAxis, UnknownAxis

    if rec["kind"] == "ordinal":
        return OrdinalAxis(label=rec["label"], values=tuple(rec["values"]))
    if rec["kind"] == "parameter":
        return ParameterAxis(label=rec["label"], values=tuple(rec["values"]), units="Å")
    if rec["kind"] == "scan":
        return ScanAxis(label=rec["label"], sampling=rec["sampling"], units="Å")
    return UnknownAxis()


def make_object(t, arr, axes_recs, lazy, meta):
    import abtem
    import abtem.measurements as M

    axes = [make_axis(r) for r in axes_recs]
    if t == "Waves":
        o = abtem.Waves(arr, energy=100e3, sampling=0.1, ensemble_axes_metadata=axes, metadata=dict(meta))
    elif t == "Images":
        o = M.Images(arr, sampling=0.1, ensemble_axes_metadata=axes, metadata=dict(meta))
    elif t == "DiffractionPatterns":
        o = M.DiffractionPatterns(arr, sampling=0.05, fftshift=True, ensemble_axes_metadata=axes, metadata=dict(meta))
    elif t == "PolarMeasurements":
        o = M.PolarMeasurements(arr, radial_sampling=1.0, azimuthal_sampling=np.pi, ensemble_axes_metadata=axes, metadata=dict(meta))
    else:
        o = M.RealSpaceLineProfiles(arr, sampling=0.1, ensemble_axes_metadata=axes, metadata=dict(meta))
    if lazy == "lazy":
        o = o.ensure_lazy()
    elif lazy == "lazy-ones":
        nb = len(base_shape(t))
        o = o.ensure_lazy(chunks=(1,) * (arr.ndim - nb) + (-1,) * nb)
    return o


def axis_rec_of(ax, n):
    k = type(ax).__name__
    if hasattr(ax, "values"):
        return {"kind": "values", "values": [float(np.ravel(v)[0]) if np.ndim(v) else float(v) for v in ax.values]}
    if hasattr(ax, "sampling"):
        return {"kind": "linear", "sampling": float(ax.sampling)}
    return {"kind": "unknown"}


def model_rec(r):
    if r["kind"] in ("ordinal", "parameter", "values"):
        return {"kind": "values", "values": [float(v) for v in r["values"]]}
    if r["kind"] in ("scan", "linear"):
        return {"kind": "linear", "sampling": float(r["sampling"])}
    return {"kind": "unknown"}


def run_one(run):
    import abtem

    ch = run.ch
    prog = draw_program(ch)
    run.scenario = prog
    f64 = prog["precision"] == "float64"
    reset_process_state({"precision": prog["precision"]})
    t = prog["type"]
    bs = base_shape(t)
    nb = len(bs)
    rng = np.random.default_rng(prog["seed"])
    recs = []
    for a in prog["axes"]:
        r = dict(a)
        if a["kind"] in ("ordinal", "parameter"):
            r["values"] = [round(float(x), 3) for x in (np.arange(a["n"]) * 1.5 + rng.integers(0, 5))]
        elif a["kind"] == "scan":
            r["sampling"] = 0.25
        recs.append(r)
    shape = tuple(a["n"] for a in prog["axes"]) + bs
    real = "float64" if f64 else "float32"
    if t == "Waves":
        arr = (rng.standard_normal(shape) + 1j * rng.standard_normal(shape)).astype("complex128" if f64 else "complex64")
    else:
        arr = rng.random(shape).astype(real)
    meta0 = {"k": 1}
    obj = make_object(t, arr.copy(), recs, prog["lazy"], meta0)
    model = {"arr": arr.copy(), "axes": [model_rec(r) for r in recs], "labels": [r["label"] if r["kind"] in ("ordinal", "parameter") else None for r in recs],
             "meta": dict(meta0)}
    rtol = 1e-6 if f64 else 2e-4
    applied = 0
    sims = []

    def sig(aspect, op, extra=None):
        s = {"aspect": aspect, "op": op, "type": t, "lazy": prog["lazy"] != "eager"}
        if extra:
            s.update(extra)
        return s

    def materialise(o):
        a = o.array
        if hasattr(a, "compute"):
            sim = run.add_sim(Sim(ch, draw_sim_config(ch, light=True)))
            with sim:
                a = a.compute(optimize_graph=sim.optimize_graph)
        return np.asarray(a)

    def verify(o, opname):
        if o.array.ndim != model["arr"].ndim or tuple(o.shape) != model["arr"].shape:
            run.violate("values-match-numpy", sig("shape", opname), f"after {opname}: shape {tuple(o.shape)} != numpy model {model['arr'].shape}")
            return False
        n_ens = model["arr"].ndim - nb
        if len(o.ensemble_axes_metadata) != n_ens or len(o.axes_metadata) != model["arr"].ndim:
            run.violate("one-axis-entry-per-dimension", sig("count", opname),
                        f"after {opname}: {len(o.ensemble_axes_metadata)} ensemble axis entries for {n_ens} ensemble dimensions")
            return False
        try:
            got = materialise(o)
        except (HarnessError, InjectedCrash):
            raise
        except Exception as e:  # noqa: BLE001 - the lazy graph built by the operations fails when computed
            run.violate("operation-succeeds", sig("compute-raise", opname, {"exc": type(e).__name__}),
                        f"computing the lazy result after {opname} raised {type(e).__name__}: {e} at {tb(e)} (declared shape {tuple(o.shape)}, "
                        f"chunks {getattr(o.array, 'chunks', None)})")
            return False
        if got.shape != model["arr"].shape:
            run.violate("values-match-numpy", sig("computed-shape", opname), f"after {opname}: computed shape {got.shape} != declared {model['arr'].shape}")
            return False
        ok, d, s = oracle.close(got, model["arr"], rtol, 1e-10 if f64 else 1e-5)
        if not ok:
            run.violate("values-match-numpy", sig("values", opname), f"after {opname}: max|diff|={d:.3g} scale={s:.3g}")
            return False
        for i, (ax, mr) in enumerate(zip(o.ensemble_axes_metadata, model["axes"])):
            r = axis_rec_of(ax, o.shape[i])
            if mr["kind"] == "values":
                if r["kind"] != "values" or len(r["values"]) != len(mr["values"]) or not np.allclose(r["values"], mr["values"]):
                    run.violate("axis-values-follow-selection", sig("values", opname),
                                f"after {opname}: axis {i} lists {r.get('values')} but the selected items are {mr['values']}")
                    return False
            elif mr["kind"] == "linear":
                if r["kind"] != "linear" or not np.isclose(r["sampling"], mr["sampling"]):
                    run.violate("axis-values-follow-selection", sig("sampling", opname), f"after {opname}: axis {i} is {r}, expected {mr}")
                    return False
            if hasattr(ax, "values") and len(ax.values) != o.shape[i]:
                run.violate("one-axis-entry-per-dimension", sig("length", opname), f"after {opname}: axis {i} has {len(ax.values)} values for size {o.shape[i]}")
                return False
        for k, v in model["meta"].items():
            if k not in o.metadata or not oracle.values_equal(o.metadata[k], v):
                run.violate("metadata-of-selected-items", sig("metadata", opname),
                            f"after {opname}: metadata[{k!r}] = {o.metadata.get(k)!r}, expected {v!r} (the value of the selected item)")
                return False
        return True

    if not verify(obj, "construct"):
        return
    def snapshot(o):
        import copy as _copy

        return (_copy.deepcopy(dict(o.metadata)), [axis_rec_of(ax, o.shape[i]) for i, ax in enumerate(o.ensemble_axes_metadata)], tuple(o.shape))

    for op in prog["ops"]:
        r = op["r"]
        n_ens = model["arr"].ndim - nb
        name = op["op"]
        receiver, before = obj, snapshot(obj)
        try:
            if name == "index":
                if n_ens == 0:
                    continue
                items, mitems = [], []
                new_axes, new_labels, new_meta = [], [], dict(model["meta"])
                for d in range(n_ens):
                    n = model["arr"].shape[d]
                    kind = ["int", "slice", "list", "full", "none+full"][r[d % 6] % 5] if d < 3 else "full"
                    # NumPy moves the dimensions of advanced indices when an integer and a list are mixed: the statement is about
                    # ints, slices and lists per axis -- a list is only combined with slices / None here, and at most one list
                    if kind == "list" and (any(isinstance(i, (int, list)) for i in items)):
                        kind = "slice"
                    if kind == "int" and any(isinstance(i, list) for i in items):
                        kind = "full"
                    # dask (2026.8) itself fails on `x[[0, 0]][[0, 1], None]` ('Alias' object has no attribute 'args'): a list and
                    # None are not combined in one expression
                    if kind == "none+full" and any(isinstance(i, list) for i in items):
                        kind = "full"
                    if kind == "list" and any(i is None for i in items):
                        kind = "slice"
                    mr, lab = model["axes"][d], model["labels"][d]
                    if kind == "int":
                        i = (r[(d + 1) % 6] % (2 * n)) - n
                        items.append(i)
                        mitems.append(i)
                        if mr["kind"] == "values" and lab is not None:
                            new_meta[lab] = mr["values"][i]
                    elif kind == "slice":
                        a, b, st = r[(d + 1) % 6] % n, r[(d + 2) % 6] % (n + 1), 1 + r[(d + 3) % 6] % 2
                        sl = slice(min(a, b), max(a, b) + 1, st)
                        items.append(sl)
                        mitems.append(sl)
                        new_axes.append({**mr, "values": mr["values"][sl]} if mr["kind"] == "values" else dict(mr))
                        new_labels.append(lab)
                    elif kind == "list":
                        idx = [r[(d + 1) % 6] % n, r[(d + 2) % 6] % n]
                        items.append(idx)
                        mitems.append(idx)
                        new_axes.append({**mr, "values": [mr["values"][j] for j in idx]} if mr["kind"] == "values" else dict(mr))
                        new_labels.append(lab)
                    elif kind == "full":
                        items.append(slice(None))
                        mitems.append(slice(None))
                        new_axes.append(dict(mr))
                        new_labels.append(lab)
                    else:
                        items += [None, slice(None)]
                        mitems += [None, slice(None)]
                        new_axes += [{"kind": "unknown"}, dict(mr)]
                        new_labels += [None, lab]
                    # numpy would broadcast two index lists together; abTEM documents ints / slices / lists per axis: use one list at most
                    if kind == "list":
                        r = [x if j != (d + 7) % 6 else x for j, x in enumerate(r)]
                if sum(isinstance(i, list) for i in items) > 1:
                    k = 0
                    for j, it in enumerate(items):
                        if isinstance(it, list):
                            k += 1
                            if k > 1:
                                items[j] = mitems[j] = slice(None)
                                # restore the untouched axis record
                    # rebuild the model axes for the replaced entries
                    new_axes, new_labels, new_meta = [], [], dict(model["meta"])
                    d = 0
                    for it in items:
                        if it is None:
                            new_axes.append({"kind": "unknown"})
                            new_labels.append(None)
                            continue
                        mr, lab = model["axes"][d], model["labels"][d]
                        if isinstance(it, int):
                            if mr["kind"] == "values" and lab is not None:
                                new_meta[lab] = mr["values"][it]
                        elif isinstance(it, list):
                            new_axes.append({**mr, "values": [mr["values"][j] for j in it]} if mr["kind"] == "values" else dict(mr))
                            new_labels.append(lab)
                        else:
                            new_axes.append({**mr, "values": mr["values"][it]} if mr["kind"] == "values" else dict(mr))
                            new_labels.append(lab)
                        d += 1
                marr = model["arr"][tuple(mitems)]
                if marr.ndim - nb < 0 or 0 in marr.shape:
                    continue
                obj = obj[tuple(items)]
                model.update(arr=marr, axes=new_axes, labels=new_labels, meta=new_meta)
            elif name == "reduce":
                if n_ens == 0:
                    continue
                fn = ["sum", "mean", "std", "min", "max"][r[0] % 5]
                if t == "Waves" and fn in ("min", "max"):
                    fn = "mean"
                if prog["lazy"] != "eager" and fn in ("min", "max"):
                    # dask itself fails on min / max over an axis that contains a zero-length chunk (left behind by a stepped
                    # slice: da.from_array(x, chunks=2)[1:3:2].max(axis=0)); lazy objects are reduced with sum / mean / std
                    fn = "sum"
                ax = r[1] % n_ens
                keep = bool(r[2] % 2)
                se = [2, 3, 8][r[3] % 3]
                obj = getattr(obj, fn)(axis=ax, keepdims=keep, split_every=se)
                marr = getattr(np, fn)(model["arr"], axis=ax, keepdims=keep)
                if keep:
                    # a kept reduced axis has length 1; its description is not part of the statement beyond 'one entry'
                    model["axes"][ax] = {"kind": "unknown"}
                    model["labels"][ax] = None
                else:
                    model["axes"].pop(ax)
                    model["labels"].pop(ax)
                model["arr"] = marr
            elif name == "arith":
                kind = ["scalar-mul", "scalar-add", "object-sub", "object-add", "array-mul", "scalar-div"][r[0] % 6]
                if kind == "scalar-mul":
                    obj = obj * 2.5
                    model["arr"] = model["arr"] * 2.5
                elif kind == "scalar-add":
                    obj = obj + 1.0
                    model["arr"] = model["arr"] + 1.0
                elif kind == "scalar-div":
                    obj = obj / 4.0
                    model["arr"] = model["arr"] / 4.0
                elif kind in ("object-sub", "object-add"):
                    other = obj.copy() * 0.5
                    obj = (obj - other) if kind == "object-sub" else (obj + other)
                    model["arr"] = model["arr"] - 0.5 * model["arr"] if kind == "object-sub" else model["arr"] + 0.5 * model["arr"]
                else:
                    w = np.arange(1, model["arr"].shape[-1] + 1, dtype=model["arr"].real.dtype)
                    obj = obj * w
                    model["arr"] = model["arr"] * w
                model["arr"] = model["arr"].astype(arr.dtype)
            elif name == "stack":
                k = 2 + r[0] % 2
                pos = r[1] % (n_ens + 1)
                vals = [10.0 * (j + 1) for j in range(k)]
                from abtem.core.axes import OrdinalAxis

                others = [obj] + [obj.copy() * (j + 2.0) for j in range(k - 1)]
                # the new axis may reuse a label that already sits in the metadata (from an earlier integer index)
                stale = [k2 for k2 in model["meta"] if k2.startswith("a") and k2 not in [l for l in model["labels"] if l]]
                slabel = stale[0] if (stale and r[2] % 2 == 0) else "stk"
                obj = abtem.stack(others, axis_metadata=OrdinalAxis(label=slabel, values=tuple(vals)), axis=pos)
                model["arr"] = np.stack([model["arr"]] + [model["arr"] * (j + 2.0) for j in range(k - 1)], axis=pos).astype(arr.dtype)
                model["axes"].insert(pos, {"kind": "values", "values": vals})
                model["labels"].insert(pos, slabel)
                if r[3] % 2 == 0:
                    # ... and pick one item of the new axis again: its value must replace whatever the metadata held under that label
                    applied += 1
                    if not verify(obj, "stack"):
                        return
                    j = r[4] % k
                    obj = obj[(slice(None),) * pos + (j,)]
                    model["arr"] = np.take(model["arr"], j, axis=pos)
                    model["axes"].pop(pos)
                    model["labels"].pop(pos)
                    model["meta"][slabel] = vals[j]
                    name = "stack+index"
            elif name == "concatenate":
                cands = [d for d in range(n_ens) if model["axes"][d]["kind"] == "values"]
                if not cands:
                    continue
                d = cands[r[0] % len(cands)]
                obj = abtem.concatenate([obj, obj.copy() * 3.0], axis=d)
                model["arr"] = np.concatenate([model["arr"], model["arr"] * 3.0], axis=d).astype(arr.dtype)
                model["axes"][d] = {"kind": "values", "values": model["axes"][d]["values"] * 2}
            elif name == "squeeze":
                ones = [d for d in range(n_ens) if model["arr"].shape[d] == 1]
                obj = obj.squeeze()
                for d in reversed(ones):
                    model["axes"].pop(d)
                    model["labels"].pop(d)
                model["arr"] = model["arr"].reshape(tuple(s for d, s in enumerate(model["arr"].shape) if d >= n_ens or s != 1))
            elif name == "expand_dims":
                pos = r[0] % (n_ens + 1)
                obj = obj.expand_dims(axis=pos)
                model["arr"] = np.expand_dims(model["arr"], pos)
                model["axes"].insert(pos, {"kind": "unknown"})
                model["labels"].insert(pos, None)
            elif name in ("reduce-base", "index-base"):
                # must be refused, and must leave the object usable
                try:
                    if name == "reduce-base":
                        bad = obj.sum(axis=model["arr"].ndim - 1)
                    else:
                        # an index that reaches a base axis: an integer, a slice, a list or an ndarray item
                        item = [0, slice(0, 2), [0, 1], np.array([0, 1])][r[0] % 4]
                        lead = (slice(None),) * n_ens if r[1] % 2 == 0 or n_ens == 0 else (0,) + (slice(None),) * (n_ens - 1)
                        bad = obj[lead + (item,)]
                    refused = False
                except (HarnessError, InjectedCrash):
                    raise
                except Exception:  # noqa: BLE001 - refusing is the required behaviour
                    refused = True
                if not refused:
                    run.violate("base-axes-refused", sig("accepted", name), f"{name} on a {t} with {n_ens} ensemble axes was accepted and returned "
                                f"{type(bad).__name__} of shape {getattr(bad, 'shape', None)}")
                    return
                run.note("base_axis_ops_refused")
                continue
        except (HarnessError, InjectedCrash):
            raise
        except Exception as e:  # noqa: BLE001
            run.violate("operation-succeeds", sig("raise", name, {"exc": type(e).__name__}),
                        f"{name} {op['r']} on {t} shape {model['arr'].shape} raised {type(e).__name__}: {e} at {tb(e)}")
            return
        applied += 1
        # the receiver of the operation still describes itself: an operation returns a new object, the old one (which the caller may
        # select from again) keeps its metadata, axes and shape
        if receiver is not obj:
            after = snapshot(receiver)
            if not oracle.values_equal(after[0], before[0]) or after[1] != before[1] or after[2] != before[2]:
                what = "metadata" if not oracle.values_equal(after[0], before[0]) else "axes"
                run.violate("receiver-keeps-its-description", sig(what, name),
                            f"{name} changed the {what} of the object it was applied to: {before[0] if what == 'metadata' else before[1]} -> "
                            f"{after[0] if what == 'metadata' else after[1]}")
                return
        if not verify(obj, name):
            return
        if any(0 in c for c in (getattr(obj.array, "chunks", None) or ())):
            # dask (2026.8) mis-executes further operations on an array that holds a zero-length chunk (a stepped slice across a
            # chunk boundary leaves one): `da.concatenate([x, 3 * x], 2)[-1, 0, 1:3:2] * 2.5` computes shape (2, 4, 4) for a
            # declared (1, 4, 4), stacking raises in chunk.getitem.  The result of the slice itself was verified; the history ends.
            run.note("dask_zero_length_chunk_history_ended")
            break
    run.nontrivial = applied >= 2
    run.note("ops_applied", applied)
    run.digest(model["arr"])
