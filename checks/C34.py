"""C34 -- temporary configuration changes are always undone (DESIGN 3, C34)."""
from __future__ import annotations

import copy

from simkit.errors import HarnessError, InjectedCrash
from simkit.interleave import CrashTracer, Interleaver, LineCounter, SimLock
from simkit.sim import TRACE_ROOT, reset_process_state

PROPERTY = "C34"
LEVEL = "exploration"
BUDGET = {"quick": (24000, 120), "thorough": (800000, 1500)}
RULE = ("history machine over abtem.config.set: a seeded tree of nested contexts (depth <= 6, 1-3 keys per context drawn from existing "
        "flat / existing nested / new flat / new nested / new-under-existing keys, '-' vs '_' and '__' spellings, mapping / kwargs / "
        "both forms, scalar-over-dict and dict-over-scalar replacements), each context left normally or by an exception raised at a "
        "drawn point of its body and caught at a drawn outer level. Reference: a stack of deep copies taken at entry; oracle at every "
        "exit: config deep-equals the matching snapshot. Extra (probe-only, never a verdict): 2-3 virtual threads running such trees "
        "on disjoint keys under the interleaver; crashes injected at arbitrary lines of __init__/__exit__. distinct = hash of the "
        "executed program; non-trivial = >= 2 contexts and at least one key actually changed inside")
ASSUMPTIONS = ["'exactly what it was' = dict deep equality (key order and object identity are not compared)",
               "a set() whose constructor raises was never entered and is outside the statement (probe only)"]
TECHNIQUE = "deterministic simulation: seeded history machine with injected body exceptions vs snapshot-stack reference model"
LEVEL_TEXT = ("seeded search over nestings x key kinds x exit modes, every exit compared with a deep-copy snapshot model; thread "
              "interleavings and constructor/exit crashes explored as probes")
LEVEL_NOTE = "sampled histories (depth <= 6); concurrency is outside the property's quantifier and is reported as probe only"

EXISTING_FLAT = ["precision", "fft", "device"]
EXISTING_NESTED = ["dask.lazy", "dask.chunk-size", "dask.chunk_size", "fftw.threads", "fftw.planning_effort", "antialias.cutoff",
                   "diagnostics.progress_bar", "warnings.overspecified-grid", "warnings.overspecified_grid", "visualize.cmap"]
EXISTING_GROUPS = ["dask", "fftw", "antialias"]
NEW_FLAT = ["newkey", "other-key", "other_key2"]
NEW_NESTED = ["newgroup.a", "newgroup.b.c", "newgroup.b.d", "grp2.x.y.z"]
NEW_UNDER_EXISTING = ["dask.extra", "fftw.sub.x", "antialias.new-one"]
VALUES = [1, "v", 2.5, None, False, {"k": 1}, [1, 2], {"deep": {"er": 0}}]


class Boom(Exception):
    pass


def warmup():
    import abtem  # noqa: F401


def draw_key(ch, prefix=""):
    kind = ch.pick(["existing_flat", "existing_nested", "new_flat", "new_nested", "new_under_existing", "group"], "key-kind")
    if kind == "existing_flat":
        return kind, ch.pick(EXISTING_FLAT, "key")
    if kind == "existing_nested":
        return kind, ch.pick(EXISTING_NESTED, "key")
    if kind == "new_flat":
        return kind, prefix + ch.pick(NEW_FLAT, "key")
    if kind == "new_nested":
        return kind, prefix + ch.pick(NEW_NESTED, "key")
    if kind == "new_under_existing":
        k = ch.pick(NEW_UNDER_EXISTING, "key")
        head, tail = k.split(".", 1)
        return kind, head + "." + prefix + tail
    return kind, ch.pick(EXISTING_GROUPS, "key")  # replace a whole group by a scalar / other dict


def draw_tree(ch, depth, budget, prefix="", keys=None):
    node = {"items": [], "form": ch.pick(["mapping", "kwargs", "both"], "form"), "children": [], "raise_at": None,
            "catch": False}
    for _ in range(ch.range(1, 3, "n-keys")):
        if keys is not None:
            kind, key = "restricted", ch.pick(keys, "key")
        else:
            kind, key = draw_key(ch, prefix)
        node["items"].append([kind, key, ch.int(len(VALUES), "value")])
    if depth < 6 and budget[0] > 0:
        for _ in range(ch.pick([0, 1, 1, 2, 3], "n-children")):
            if budget[0] <= 0:
                break
            budget[0] -= 1
            node["children"].append(draw_tree(ch, depth + 1, budget, prefix, keys))
    if ch.bool(0.3, "raise?"):
        node["raise_at"] = ch.int(len(node["children"]) + 1, "raise-at")
    node["catch"] = ch.bool(0.4, "catch")
    return node


def make_set(node):
    import abtem.core.config as cfg

    items = [(k, copy.deepcopy(VALUES[v])) for _, k, v in node["items"]]
    form = node["form"]

    def kw(k):
        return k.replace(".", "__")

    kwargs_ok = all(kw(k).isidentifier() for k, _ in items)
    if form == "kwargs" and kwargs_ok:
        return cfg.set(**{kw(k): v for k, v in items})
    if form == "both" and len(items) > 1 and kw(items[-1][0]).isidentifier():
        return cfg.set(dict(items[:-1]), **{kw(items[-1][0]): items[-1][1]})
    return cfg.set(dict(items))


def count_nodes(n):
    return 1 + sum(count_nodes(c) for c in n["children"])


class Exec:
    def __init__(self, run, tag=""):
        self.run, self.tag = run, tag
        self.exits = 0
        self.changed = 0
        self.exc_exits = 0

    def go(self, node, depth=0):
        import abtem.core.config as cfg

        snap = copy.deepcopy(cfg.config)
        how = "normal"
        try:
            ctx = make_set(node)
        except (HarnessError, InjectedCrash):
            raise
        except Exception as e:  # noqa: BLE001 - constructor refused the keys: never entered, outside the statement
            self.run.note("constructor_raised")
            if cfg.config != snap:
                self.run.note("probe_constructor_raise_left_config_modified")
                cfg.config.clear()
                cfg.config.update(copy.deepcopy(snap))
            return
        try:
            with ctx:
                if cfg.config != snap:
                    self.changed += 1
                for i, child in enumerate(node["children"]):
                    if node["raise_at"] == i:
                        raise Boom()
                    self.go(child, depth + 1)
                if node["raise_at"] == len(node["children"]):
                    raise Boom()
        except Boom:
            how = "exception"
            self.exc_exits += 1
            self._compare(cfg, snap, node, depth, how)
            if not node["catch"] and depth > 0:
                raise
            return
        self._compare(cfg, snap, node, depth, how)

    def _compare(self, cfg, snap, node, depth, how):
        self.exits += 1
        if cfg.config != snap:
            kinds = sorted({k for k, _, _ in node["items"]})
            diff = describe_diff(snap, cfg.config)
            self.run.violate("restored-at-exit", {"exit": how, "key_kinds": "+".join(kinds), "diff": diff["kind"]},
                             f"{self.tag}after leaving a context (depth {depth}, {how}) that set {[k for _, k, _ in node['items']]} the "
                             f"configuration differs from the entry snapshot: {diff['text']}")
            # resynchronise so that one leak is reported once, not at every enclosing exit
            cfg.config.clear()
            cfg.config.update(copy.deepcopy(snap))


def describe_diff(a, b, path=""):
    for k in a:
        if k not in b:
            return {"kind": "key-lost", "text": f"{path}{k} disappeared"}
        if a[k] != b[k]:
            if isinstance(a[k], dict) and isinstance(b[k], dict):
                return describe_diff(a[k], b[k], path + str(k) + ".")
            return {"kind": "value-changed", "text": f"{path}{k}: {a[k]!r} -> {b[k]!r}"}
    for k in b:
        if k not in a:
            return {"kind": "key-leaked", "text": f"{path}{k} = {b[k]!r} was left behind"}
    return {"kind": "none", "text": ""}


def run_one(run):
    import abtem.core.config as cfg

    ch = run.ch
    mode = ch.pick(["sequential", "sequential", "sequential", "threads", "crash"], "mode")
    run.scenario = {"mode": mode}
    reset_process_state()
    initial = copy.deepcopy(cfg.config)

    if mode == "sequential":
        tree = draw_tree(ch, 0, [ch.range(1, 14, "budget")])
        run.scenario["tree"] = tree
        ex = Exec(run)
        try:
            ex.go(tree)
        except Boom:
            pass
        if cfg.config != initial:
            d = describe_diff(initial, cfg.config)
            run.violate("restored-at-end", {"diff": d["kind"]}, f"after the whole history the configuration differs from the initial one: {d['text']}")
        run.nontrivial = count_nodes(tree) >= 2 and ex.changed > 0
        run.note("exits", ex.exits)
        run.note("exits_by_exception", ex.exc_exits)
        run.note("contexts_that_changed_config", ex.changed)
        return

    run.probe_run = True
    if mode == "threads":
        # 2-3 virtual threads on disjoint keys under the interleaver (probe: outside the property's quantifier)
        n = ch.range(2, 3, "n-threads")
        pools = [["precision", "dask.lazy", "fftw.threads"], ["fft", "dask.chunk-size", "antialias.cutoff"],
                 ["device", "visualize.cmap", "fftw.planning_effort"]]
        trees = []
        for t in range(n):
            keys = pools[t] + [f"t{t}_new", f"t{t}_grp.a", f"t{t}_grp.b.c"]
            trees.append(draw_tree(ch, 0, [ch.range(1, 6, "budget")], keys=keys))
        run.scenario["trees"] = trees
        stats: dict = {}
        log: list = []
        il = Interleaver(ch, TRACE_ROOT, 1, ch.pick([3, 10, 40], "qhi"), log, stats)
        lock = SimLock("config_lock")
        old = cfg.set.__init__.__defaults__
        cfg.set.__init__.__defaults__ = tuple(lock if x is cfg.config_lock else x for x in old)
        try:
            execs = [Exec(run, tag=f"[thread {t}] ") for t in range(n)]

            def body(t):
                def f():
                    try:
                        execs[t].go_thread(trees[t])
                    except Boom:
                        pass
                return f

            # per-thread comparison only looks at the thread's own keys
            for e, keys in zip(execs, [pools[t] + [f"t{t}_new", f"t{t}_grp"] for t in range(n)]):
                e.own = keys
            vts = [il.spawn(f"t{t}", body(t)) for t in range(n)]
            il.run_all(vts)
            for vt in vts:
                if vt.exc is not None and not isinstance(vt.exc, Boom):
                    raise HarnessError(f"thread {vt.name} raised {vt.exc!r}")
        finally:
            cfg.set.__init__.__defaults__ = old
        run.note("thread_switches", stats.get("switches", 0))
        run.note("lock_contended", lock.contended)
        if cfg.config != initial:
            d = describe_diff(initial, cfg.config)
            run.violate("probe-threads-restored-at-end", {"diff": d["kind"]}, f"disjoint-key threads: {d['text']}")
        run.nontrivial = stats.get("switches", 0) > 2
        return

    # mode == "crash": exception injected at an arbitrary abTEM line of __init__ / body / __exit__ (probe)
    tree = draw_tree(ch, 0, [ch.range(1, 5, "budget")])
    run.scenario["tree"] = tree
    with LineCounter(TRACE_ROOT) as lc:
        try:
            Exec(runner_null(), "").go(tree)
        except Boom:
            pass
    cfg.config.clear()
    cfg.config.update(copy.deepcopy(initial))
    if lc.lines:
        n = 1 + ch.int(lc.lines, "crash-line")
        try:
            with CrashTracer(TRACE_ROOT, n) as ct:
                try:
                    Exec(runner_null(), "").go(tree)
                except Boom:
                    pass
                except InjectedCrash:
                    raise
                except Exception:  # noqa: BLE001 - an enclosing __exit__ tripping over the half-applied state (probe)
                    run.note("probe_exit_raised_after_crash")
                    raise InjectedCrash(ct.fired or "?")
        except InjectedCrash as e:
            if cfg.config_lock.locked():
                run.note("probe_crash_left_config_lock_held")
                cfg.config_lock.release()
            run.note("crashes_injected")
            run.scenario["crash_at"] = str(e)
            if cfg.config != initial:
                run.note("probe_crash_left_config_modified")
                where = "exit" if "config.py" in str(e) else "other"
                run.violate("probe-crash-inside-set", {"where": str(e).split(":")[0]}, f"crash at {e}: {describe_diff(initial, cfg.config)['text']}")
    run.nontrivial = True


class _Null:
    def note(self, *a, **k):
        pass

    def violate(self, *a, **k):
        pass


def runner_null():
    return _Null()


def _go_thread(self, node, depth=0):
    """like go(), but compares only this thread's own keys (other threads legitimately change theirs)"""
    import abtem.core.config as cfg

    def view():
        out = {}
        for k in self.own:
            d = cfg.config
            try:
                for part in k.split("."):
                    d = d[part]
                out[k] = copy.deepcopy(d)
            except (KeyError, TypeError):
                out[k] = "<absent>"
        return out

    snap = view()
    try:
        with make_set(node):
            for i, child in enumerate(node["children"]):
                if node["raise_at"] == i:
                    raise Boom()
                self.go_thread(child, depth + 1)
            if node["raise_at"] == len(node["children"]):
                raise Boom()
    except Boom:
        now = view()
        if now != snap:
            self.run.violate("probe-threads-restored-at-exit", {"exit": "exception"}, f"{self.tag}{snap} -> {now}")
        if not node["catch"] and depth > 0:
            raise
        return
    now = view()
    if now != snap:
        self.run.violate("probe-threads-restored-at-exit", {"exit": "normal"}, f"{self.tag}{snap} -> {now}")


Exec.go_thread = _go_thread
