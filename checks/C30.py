"""C30 -- saved results load back unchanged (DESIGN 3, C30): round trip + store-fault sweep."""
from __future__ import annotations

import os
import shutil
import tempfile

import numpy as np

from simkit import oracle
from simkit.errors import HarnessError, InjectedCrash
from simkit.sim import Sim, draw_sim_config, reset_process_state
from simkit.storefault import StoreFaults
from simkit.util import tb

PROPERTY = "C30"
LEVEL = "fault_enumeration"
BUDGET = {"quick": (160, 170), "thorough": (6000, 1700)}
RULE = ("workload = 1-2 seeded array objects (Waves / Images / DiffractionPatterns / PolarMeasurements / RealSpace- and "
        "ReciprocalSpaceLineProfiles / MeasurementsEnsemble / PotentialArray; 0-3 ensemble axes of every axis kind; float32/64, complex64/128, "
        "int32; metadata with tuples, nested dicts, numpy scalars, None) x {directory, zip} x {eager, lazy computed by SimScheduler, "
        "compute=False then compute} x overwrite of an existing target x compression level. Fault-free: reloaded object equal in "
        "type, values (bitwise), dtype, axes metadata and metadata; in half of the workloads the same url is then overwritten with other "
        "objects, read, overwritten with the first ones and read again (stale state of an earlier open must not leak). Fault sweep: every store operation the write and the read "
        "perform x every applicable reported fault (ENOSPC / EIO before a write, torn write, EIO on read / delete / close / open / "
        "os.remove / rmtree), one fault per execution, complete per workload (capped at 60 points, then sampled); oracle: the call "
        "raised OR the read-back is exact -- never silent wrong data; after the fault is cleared a retry with overwrite=True "
        "succeeds and round-trips. evaluations = executions (fault-free + one per fault point); distinct = (workload hash, fault "
        "point); non-trivial = the fault fired inside the operation")
ASSUMPTIONS = ["only reported faults (the failing store call raises OSError); silent media corruption is out of scope",
               "crash consistency of an interrupted write is not claimed by the property and not checked",
               "numpy scalars in metadata compare by value after the JSON round trip (np.float32(1.5) == 1.5)"]
TECHNIQUE = "deterministic simulation with fault injection: per-workload sweep of every zarr store operation x reported fault kind"
LEVEL_TEXT = ("for every sampled workload, every store operation of the write and of the read is failed once with every applicable "
              "reported fault (enumerated per workload); workloads themselves are sampled")
LEVEL_NOTE = "fault points enumerated per workload (cap 60, then sampled); workloads sampled; real zarr stores on a real file system"

SCRATCH = os.environ.get("VERIF_SCRATCH") or tempfile.gettempdir()
TYPES = ["Images", "Waves", "DiffractionPatterns", "PolarMeasurements", "RealSpaceLineProfiles", "ReciprocalSpaceLineProfiles",
         "MeasurementsEnsemble", "PotentialArray"]
ATTRS = ("energy", "sampling", "extent", "reciprocal_space", "fftshift", "slice_thickness", "exit_planes", "radial_sampling",
         "azimuthal_sampling", "radial_offset", "azimuthal_offset")
AXES = ["ScanAxis", "OrdinalAxis", "ParameterAxis", "ThicknessAxis", "PositionsAxis", "FrozenPhononsAxis", "TiltAxis",
        "AxisAlignedTiltAxis", "UnknownAxis", "NonLinearAxis", "RealSpaceAxis"]


def warmup():
    import abtem  # noqa: F401
    import zarr

    zarr.config.set({"async.concurrency": 1, "threading.max_workers": 1})


# ------------------------------------------------------------------------------------------------ workload -----
def draw_axis(ch, n):
    kind = ch.pick(AXES, "axis-kind")
    r = {"kind": kind, "n": n}
    if kind in ("ScanAxis", "RealSpaceAxis"):
        r.update(sampling=ch.pick([0.1, 0.25, 1.5], "ax-sampling"), offset=ch.pick([0.0, 0.5, -1.0], "ax-offset"),
                 endpoint=ch.bool(0.5, "ax-endpoint"), label=ch.pick(["x", "y", ""], "ax-label"), units="Å")
    elif kind in ("OrdinalAxis", "ParameterAxis", "ThicknessAxis", "NonLinearAxis", "AxisAlignedTiltAxis"):
        start = ch.pick([0.0, 1.5, -3.0], "ax-start")
        r.update(values=[start + 0.5 * i for i in range(n)], label=ch.pick(["C10", "thickness", "t"], "ax-label"),
                 units=ch.pick(["Å", "mrad", None], "ax-units"))
        if kind == "AxisAlignedTiltAxis":
            r["direction"] = ch.pick(["x", "y"], "ax-dir")
    elif kind in ("PositionsAxis", "TiltAxis"):
        r.update(values=[[0.5 * i, 1.0 + i] for i in range(n)])
    elif kind == "FrozenPhononsAxis":
        r.update(ensemble_mean=ch.bool(0.5, "ax-mean"))
    return r


def make_axis(r):
    import abtem.core.axes as ax

    k = r["kind"]
    if k in ("ScanAxis", "RealSpaceAxis"):
        return getattr(ax, k)(label=r["label"], units=r["units"], sampling=r["sampling"], offset=r["offset"], endpoint=r["endpoint"])
    if k in ("OrdinalAxis", "ParameterAxis", "ThicknessAxis", "NonLinearAxis"):
        kw = {"label": r["label"], "values": tuple(r["values"])}
        if r["units"] is not None:
            kw["units"] = r["units"]
        return getattr(ax, k)(**kw)
    if k == "AxisAlignedTiltAxis":
        return ax.AxisAlignedTiltAxis(values=tuple(r["values"]), direction=r["direction"])
    if k in ("PositionsAxis", "TiltAxis"):
        return getattr(ax, k)(values=tuple(tuple(v) for v in r["values"]))
    if k == "FrozenPhononsAxis":
        return ax.FrozenPhononsAxis(_ensemble_mean=r["ensemble_mean"])
    return ax.UnknownAxis()


META_VALUES = [("tuple", (1, 2.5)), ("nested", {"a": {"b": (1, 2), "c": [1, 2]}}), ("npfloat", "np.float32"), ("npint", "np.int64"),
               ("npbool", "np.bool_"), ("none", None), ("str", "text"), ("float", 1e5), ("list", [1, (2, 3)]), ("units", "e/Å^2")]


def draw_object(ch):
    t = ch.pick(TYPES, "type")
    naxes = ch.pick([0, 1, 1, 2, 3], "n-axes")
    axes = [draw_axis(ch, ch.range(1, 4, "axis-len")) for _ in range(naxes)]
    if t == "MeasurementsEnsemble" and not axes:
        axes = [draw_axis(ch, ch.range(1, 4, "axis-len"))]
    base = {"Images": 2, "Waves": 2, "DiffractionPatterns": 2, "PolarMeasurements": 2, "RealSpaceLineProfiles": 1,
            "ReciprocalSpaceLineProfiles": 1, "MeasurementsEnsemble": 0, "PotentialArray": 3}[t]
    if t == "PotentialArray":
        axes = axes[:1]
    base_shape = [ch.pick([4, 5, 8, 3], "base-n") for _ in range(base)]
    if t == "PotentialArray":
        dtype = ch.pick(["float32", "float64"], "dtype")
    elif t == "Waves":
        dtype = ch.pick(["complex64", "complex128"], "dtype")
    else:
        dtype = ch.pick(["float32", "float64", "complex64", "int32"], "dtype", weights=[4, 3, 1, 1])
    meta = {}
    for _ in range(ch.range(0, 4, "n-meta")):
        name, _v = ch.pick(META_VALUES, "meta")
        meta[name] = name
    r = {"type": t, "axes": axes, "base_shape": base_shape, "dtype": dtype, "seed": ch.subseed("data-seed"), "meta": sorted(meta),
         "lazy": ch.pick(["eager", "lazy", "lazy-chunked"], "laziness")}
    if t == "Waves":
        r["energy"] = ch.pick([100e3, 80e3], "energy")
        r["reciprocal_space"] = ch.bool(0.2, "reciprocal")
    if t == "DiffractionPatterns":
        r["fftshift"] = ch.bool(0.5, "fftshift")
    r["sampling"] = ch.pick([0.1, 0.05, 0.2], "sampling")
    if t == "PotentialArray":
        ns = base_shape[0]
        r["slice_thickness"] = [ch.pick([1.0, 0.5, 2.0], "st") for _ in range(ns)]
        r["exit_planes"] = ch.pick([None, [ns - 1], [-1, ns - 1], [0, ns - 1]], "ep")
    return r


def make_object(r):
    import abtem
    import abtem.measurements as M

    rng = np.random.default_rng(r["seed"])
    shape = tuple(a["n"] for a in r["axes"]) + tuple(r["base_shape"])
    if r["dtype"].startswith("complex"):
        arr = (rng.standard_normal(shape) + 1j * rng.standard_normal(shape)).astype(r["dtype"])
    elif r["dtype"] == "int32":
        arr = rng.integers(0, 1000, size=shape).astype("int32")
    else:
        arr = rng.standard_normal(shape).astype(r["dtype"])
    meta = {}
    for name in r["meta"]:
        v = dict(META_VALUES)[name]
        if isinstance(v, str) and v.startswith("np."):
            v = getattr(np, v[3:])(1)
        meta[name] = v
    axes = [make_axis(a) for a in r["axes"]]
    t = r["type"]
    s = r["sampling"]
    if t == "Waves":
        meta = dict(meta)
        obj = abtem.Waves(arr, energy=r["energy"], sampling=s, reciprocal_space=r["reciprocal_space"], ensemble_axes_metadata=axes,
                          metadata=meta)
    elif t == "Images":
        obj = M.Images(arr, sampling=s, ensemble_axes_metadata=axes, metadata=meta)
    elif t == "DiffractionPatterns":
        obj = M.DiffractionPatterns(arr, sampling=s, fftshift=r["fftshift"], ensemble_axes_metadata=axes, metadata=meta)
    elif t == "PolarMeasurements":
        obj = M.PolarMeasurements(arr, radial_sampling=s, azimuthal_sampling=0.5, radial_offset=1.0, azimuthal_offset=0.25,
                                  ensemble_axes_metadata=axes, metadata=meta)
    elif t == "PotentialArray":
        ep = r["exit_planes"]
        obj = abtem.PotentialArray(arr, slice_thickness=tuple(r["slice_thickness"]), sampling=s, exit_planes=tuple(ep) if ep else None,
                                   ensemble_axes_metadata=axes, metadata=meta)
    elif t == "RealSpaceLineProfiles":
        obj = M.RealSpaceLineProfiles(arr, sampling=s, ensemble_axes_metadata=axes, metadata=meta)
    elif t == "ReciprocalSpaceLineProfiles":
        obj = M.ReciprocalSpaceLineProfiles(arr, sampling=s, ensemble_axes_metadata=axes, metadata=meta)
    else:
        obj = M.MeasurementsEnsemble(arr, ensemble_axes_metadata=axes, metadata=meta)
    if r["lazy"] == "lazy":
        obj = obj.ensure_lazy()
    elif r["lazy"] == "lazy-chunked" and len(r["axes"]):
        obj = obj.ensure_lazy(chunks=(1,) + (-1,) * (len(shape) - 1))
    elif r["lazy"] == "lazy-chunked":
        obj = obj.ensure_lazy()
    return obj


def draw_workload(ch):
    n = ch.pick([1, 1, 2], "n-objects")
    return {"objects": [draw_object(ch) for _ in range(n)], "store": ch.pick(["dir", "zip"], "store"),
            "compute_later": ch.bool(0.25, "compute-later"), "preexisting": ch.bool(0.3, "preexisting"),
            "compression": ch.pick([4, None, 0, 9], "compression"), "read_chunks": ch.pick(["default", "auto", "stored"], "read-chunks"),
            "mode": ch.pick(["sweep", "sweep", "roundtrip"], "mode"),
            # save A, load A, save B over it (overwrite=True), load: B must come back (and A again after saving A over B)
            "overwrite_history": [draw_object(ch) for _ in range(ch.pick([1, 1, 2], "n-objects-2"))] if ch.bool(0.5, "overwrite-history") else None}


# ------------------------------------------------------------------------------------------------ operations -----
def do_write(wl, url, sim, overwrite):
    from abtem.array import ComputableList

    objs = [make_object(r) for r in wl["objects"]]
    target = objs[0] if len(objs) == 1 else ComputableList(objs)
    kw = {}
    if len(objs) > 1 or wl["compression"] != 4:
        kw["compression_level"] = wl["compression"]
        target = ComputableList(objs)
    with sim:
        if wl["compute_later"]:
            d = target.to_zarr(url, compute=False, overwrite=overwrite, **kw)
            d.compute(optimize_graph=sim.optimize_graph)
        else:
            target.to_zarr(url, overwrite=overwrite, **kw)


def do_read(wl, url, sim):
    import abtem

    with sim:
        if wl["read_chunks"] == "default":
            got = abtem.from_zarr(url)
        else:
            got = abtem.from_zarr(url, chunks="auto" if wl["read_chunks"] == "auto" else None)
        gl = got if isinstance(got, list) else [got]
        return [sim.compute(g) if g.is_lazy else g for g in gl]


def compare(wl, loaded):
    """list of (aspect, message)"""
    out = []
    want = [make_object(r) for r in wl["objects"]]
    if len(loaded) != len(want):
        return [("count", f"{len(loaded)} objects loaded, {len(want)} written")]
    for i, (w, g) in enumerate(zip(want, loaded)):
        if w.is_lazy:
            w = w.compute(scheduler="synchronous", progress_bar=False)
        if type(w) is not type(g):
            out.append(("type", f"object {i}: {type(g).__name__} != {type(w).__name__}"))
            continue
        wa, ga = np.asarray(w.array), np.asarray(g.array)
        if wa.shape != ga.shape:
            out.append(("shape", f"object {i}: shape {ga.shape} != {wa.shape}"))
            continue
        if wa.dtype != ga.dtype:
            out.append(("dtype", f"object {i}: dtype {ga.dtype} != {wa.dtype}"))
        if not np.array_equal(wa, ga):
            out.append(("values", f"object {i}: array differs (max |diff| {np.abs(wa.astype(complex) - ga.astype(complex)).max():.3g})"))
        m = oracle.axes_equal(w.axes_metadata, g.axes_metadata)
        if m:
            out.append(("axes", f"object {i} ({type(w).__name__}): {m}"))
        for attr in ATTRS:
            try:
                a = getattr(w, attr)
            except Exception:  # noqa: BLE001 - attribute absent or not defined for this type
                continue
            else:
                try:
                    b = getattr(g, attr)
                except Exception as e:  # noqa: BLE001
                    b = f"<{type(e).__name__}>"
                if not oracle.values_equal(a, b):
                    out.append(("attribute", f"object {i} ({type(w).__name__}): {attr} {b!r} != {a!r}"))
        if not oracle.values_equal(dict(w.metadata), dict(g.metadata)):
            out.append(("metadata", f"object {i}: metadata {dict(g.metadata)!r} != {dict(w.metadata)!r}"[:400]))
    return out


def sigw(wl, aspect, phase, extra=None):
    kinds = sorted({a["kind"] for r in wl["objects"] for a in r["axes"]})
    s = {"aspect": aspect, "phase": phase, "store": wl["store"]}
    if aspect in ("axes",):
        s["axis_kinds"] = "+".join(kinds)
    if aspect in ("type", "metadata", "dtype"):
        s["types"] = "+".join(sorted({r["type"] for r in wl["objects"]}))
    if aspect == "metadata":
        s["meta"] = "+".join(sorted({m for r in wl["objects"] for m in r["meta"]}))
    if extra:
        s.update(extra)
    return s


def run_one(run):
    ch = run.ch
    wl = draw_workload(ch)
    run.scenario = wl
    reset_process_state()
    warmup()
    tmp = tempfile.mkdtemp(prefix="c30-", dir=SCRATCH)
    ext = ".zarr" if wl["store"] == "dir" else ".zip"
    sf = StoreFaults(tmp)
    counter = [0]

    def new_url():
        # relative to the (random) scratch directory we chdir into, so that no run-specific path enters a task graph
        counter[0] += 1
        return f"t{counter[0]}{ext}"

    def mk_sim():
        return run.add_sim(Sim(ch, draw_sim_config(ch, light=True, allow_recompute=False), graph_shape=False))

    cwd = os.getcwd()
    os.chdir(tmp)
    try:
        with sf:
            # ------------------------------------------------------------- fault-free round trip -----------
            url = new_url()
            if wl["preexisting"]:
                sf.reset()
                do_write({**wl, "objects": wl["objects"][:1]}, url, Sim(ch, graph_shape=False), overwrite=True)
            sf.reset()
            try:
                do_write(wl, url, mk_sim(), overwrite=True)
            except (HarnessError, InjectedCrash):
                raise
            except Exception as e:  # noqa: BLE001
                run.violate("roundtrip", sigw(wl, "raise", "write", {"exc": type(e).__name__, "types": "+".join(sorted({r["type"] for r in wl["objects"]}))}),
                            f"fault-free to_zarr raised {type(e).__name__}: {e} at {tb(e)}")
                return
            wlog = list(sf.log)
            sf.reset()
            try:
                loaded = do_read(wl, url, mk_sim())
            except (HarnessError, InjectedCrash):
                raise
            except Exception as e:  # noqa: BLE001
                run.violate("roundtrip", sigw(wl, "raise", "read", {"exc": type(e).__name__, "types": "+".join(sorted({r["type"] for r in wl["objects"]})),
                                                                     "axis_kinds": "+".join(sorted({a["kind"] for r in wl["objects"] for a in r["axes"]}))}),
                            f"fault-free from_zarr raised {type(e).__name__}: {e} at {tb(e)}")
                return
            rlog = list(sf.log)
            bad = compare(wl, loaded)
            for aspect, msg in bad:
                run.violate("roundtrip", sigw(wl, aspect, "fault-free"), msg)
            run.note("executions")
            run.note("store_ops_seen", len(wlog) + len(rlog))
            if not bad and wl["overwrite_history"]:
                wl2 = {**wl, "objects": wl["overwrite_history"]}
                for step, w in (("overwrite", wl2), ("overwrite-back", wl)):
                    sf.reset()
                    try:
                        do_write(w, url, mk_sim(), overwrite=True)
                        bad = compare(w, do_read(w, url, mk_sim()))
                    except (HarnessError, InjectedCrash):
                        raise
                    except Exception as e:  # noqa: BLE001
                        bad = [("raise", f"{type(e).__name__}: {e} at {tb(e)}")]
                    run.note("executions")
                    run.note("reach_overwrite_history")
                    for aspect, msg in bad:
                        run.violate("roundtrip", sigw(w, aspect, step), f"url written, read, overwritten with other objects and read again ({step}): {msg}")
                    if bad:
                        break
            if bad or wl["mode"] == "roundtrip":
                run.nontrivial = True
                return
            # ------------------------------------------------------------- write-fault sweep ---------------------
            wpoints = sorted(set(sf.fault_points(wlog)))
            rpoints = sorted(set(sf.fault_points(rlog)))
            cap = 60
            exhaustive = len(wpoints) + len(rpoints) <= cap
            if not exhaustive:
                both = wpoints + rpoints
                keep = set()
                while len(keep) < cap:
                    keep.add(ch.int(len(both), "fault-point"))
                wpoints = [p for i, p in enumerate(wpoints) if i in keep]
                rpoints = [p for i, p in enumerate(rpoints) if (i + len(both) - len(rpoints)) in keep]
            run.note("workloads_swept_exhaustively" if exhaustive else "workloads_swept_sampled")
            for fp in wpoints:
                u = new_url()
                if wl["preexisting"] or fp[1] in ("os.remove", "shutil.rmtree", "delete_dir"):
                    sf.reset()
                    do_write({**wl, "objects": wl["objects"][:1]}, u, Sim(ch, graph_shape=False), overwrite=True)
                sf.reset([fp])
                raised = None
                try:
                    do_write(wl, u, Sim(ch, graph_shape=False), overwrite=True)
                except (HarnessError, InjectedCrash):
                    raise
                except Exception as e:  # noqa: BLE001
                    raised = e
                fired = bool(sf.fired)
                run.note("executions")
                run.note(f"fault_fired_{fp[4]}_{fp[1]}" if fired else "fault_not_reached")
                sf.quiesce()
                sf.reset()
                if raised is None:
                    # the call reported success: what is on disk must be exactly the data
                    try:
                        got = do_read(wl, u, Sim(ch, graph_shape=False))
                        bad = compare(wl, got)
                    except (HarnessError, InjectedCrash):
                        raise
                    except Exception as e:  # noqa: BLE001
                        bad = [("unreadable", f"{type(e).__name__}: {e}")]
                    if bad and fired:
                        run.scenario.setdefault("faults_fired", []).append({"store": fp[0], "op": fp[1], "key": fp[2], "occurrence": fp[3], "kind": fp[4]})
                        run.violate("write-fault-raises-or-exact", sigw(wl, bad[0][0], "write-fault", {"op": fp[1], "fault": fp[4], "key_kind": keykind(fp[2])}),
                                    f"{fp[4]} injected on {fp[0]}.{fp[1]}({fp[2]!r}) #{fp[3]}: to_zarr returned normally but the stored data is "
                                    f"wrong: {bad[0][1]}")
                        continue
                    if fired:
                        run.note("fault_tolerated_silently_ok")
                run.note("executions")  # the recovery write + read is an execution of its own
                # bounded recovery: once the fault is gone a retry with overwrite=True must succeed and round-trip
                try:
                    do_write(wl, u, Sim(ch, graph_shape=False), overwrite=True)
                    got = do_read(wl, u, Sim(ch, graph_shape=False))
                    bad = compare(wl, got)
                except (HarnessError, InjectedCrash):
                    raise
                except Exception as e:  # noqa: BLE001
                    bad = [("raise", f"{type(e).__name__}: {e} at {tb(e)}")]
                if bad:
                    run.violate("recovery-after-fault", sigw(wl, bad[0][0], "recovery", {"op": fp[1], "fault": fp[4]}),
                                f"after {fp[4]} on {fp[0]}.{fp[1]}({fp[2]!r}) and clearing it, to_zarr(overwrite=True) does not round-trip: {bad[0][1]}")
            # ------------------------------------------------------------- thorough tier: pairs of write faults ---------
            if os.environ.get("VERIF_TIER_ACTIVE") == "thorough" and len(wpoints) >= 2:
                for _ in range(min(12, len(wpoints))):
                    a, b = wpoints[ch.int(len(wpoints), "pair-a")], wpoints[ch.int(len(wpoints), "pair-b")]
                    if a == b:
                        continue
                    u = new_url()
                    sf.reset([a, b])
                    raised = None
                    try:
                        do_write(wl, u, Sim(ch, graph_shape=False), overwrite=True)
                    except (HarnessError, InjectedCrash):
                        raise
                    except Exception as e:  # noqa: BLE001
                        raised = e
                    fired = len(sf.fired)
                    run.note("executions")
                    run.note("double_fault_executions")
                    run.note(f"double_fault_fired_{fired}")
                    sf.quiesce()
                    sf.reset()
                    if raised is None and fired:
                        try:
                            bad = compare(wl, do_read(wl, u, Sim(ch, graph_shape=False)))
                        except (HarnessError, InjectedCrash):
                            raise
                        except Exception as e:  # noqa: BLE001
                            bad = [("unreadable", f"{type(e).__name__}: {e}")]
                        if bad:
                            run.violate("write-fault-raises-or-exact", sigw(wl, bad[0][0], "write-fault-pair", {"op": a[1] + "+" + b[1], "fault": a[4] + "+" + b[4]}),
                                        f"faults {a} and {b}: to_zarr returned normally but the stored data is wrong: {bad[0][1]}")
                            continue
                    try:
                        do_write(wl, u, Sim(ch, graph_shape=False), overwrite=True)
                        bad = compare(wl, do_read(wl, u, Sim(ch, graph_shape=False)))
                    except (HarnessError, InjectedCrash):
                        raise
                    except Exception as e:  # noqa: BLE001
                        bad = [("raise", f"{type(e).__name__}: {e} at {tb(e)}")]
                    if bad:
                        run.violate("recovery-after-fault", sigw(wl, bad[0][0], "recovery", {"op": a[1] + "+" + b[1], "fault": a[4] + "+" + b[4]}),
                                    f"after faults {a} and {b} were cleared, to_zarr(overwrite=True) does not round-trip: {bad[0][1]}")
            # ------------------------------------------------------------- read-fault sweep -------------------------
            for fp in rpoints:
                sf.reset([fp])
                raised = None
                try:
                    got = do_read(wl, url, Sim(ch, graph_shape=False))
                except (HarnessError, InjectedCrash):
                    raise
                except Exception as e:  # noqa: BLE001
                    raised = e
                fired = bool(sf.fired)
                run.note("executions")
                run.note(f"fault_fired_{fp[4]}_{fp[1]}" if fired else "fault_not_reached")
                sf.quiesce()
                sf.reset()
                if raised is None and fired:
                    bad = compare(wl, got)
                    if bad:
                        run.violate("read-fault-raises-or-exact", sigw(wl, bad[0][0], "read-fault", {"op": fp[1], "fault": fp[4], "key_kind": keykind(fp[2])}),
                                    f"{fp[4]} injected on {fp[0]}.{fp[1]}({fp[2]!r}) #{fp[3]} during from_zarr/compute: no error was reported "
                                    f"but the loaded object is wrong: {bad[0][1]}")
            run.nontrivial = True
            run.scenario["fault_points"] = len(wpoints) + len(rpoints)
    finally:
        os.chdir(cwd)
        sf.uninstall()
        shutil.rmtree(tmp, ignore_errors=True)


def keykind(key):
    if "/c/" in key or key.startswith("c/"):
        return "chunk"
    if key.endswith("zarr.json"):
        return "metadata"
    return "other" if key else "none"
