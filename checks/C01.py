"""C01 -- lazy and eager evaluation produce the same simulation results (DESIGN 3, C01)."""
from __future__ import annotations

from simkit import oracle, scene
from simkit.errors import HarnessError, InjectedCrash
from simkit.util import tb
from simkit.sim import Sim, draw_sim_config, reset_process_state

PROPERTY = "C01"
LEVEL = "exploration"
BUDGET = {"quick": (640, 150), "thorough": (16000, 1500)}
RULE = ("seeded scene (potential kind x builder x scan x detectors x exit planes x post-processing) with drawn knobs "
        "(precision, fft, dask.chunk-size, max_batch, graph shape); reference = eager call on fresh objects; subjects = "
        "two lazy calls with different knobs computed by SimScheduler (reorder / interleave / release / recompute-lineage). "
        "distinct = (scenario hash, schedule hash); non-trivial = the schedule had >=1 real choice (>=2 ready tasks, "
        "a thread switch or a recompute) and the reference did not raise")
ASSUMPTIONS = ["dask may run tasks in any dependency-respecting order, concurrently, and may recompute a lineage from roots",
               "pre-emption is modelled at Python-line granularity inside abtem/*; native kernels are atomic",
               "tolerance rtol 1e-7 (float64) / 2e-4 (float32) on values; structure compared exactly"]


def warmup():
    import abtem
    import ase
    for prec in ("float32", "float64"):
        reset_process_state({"precision": prec, "fft": "numpy"})
        atoms = ase.Atoms("SiC", positions=[(0, 0, 1), (2, 2, 3)], cell=[4, 4, 4], pbc=True)
        for proj in ("infinite",):
            pot = abtem.Potential(atoms, gpts=12, slice_thickness=2, projection=proj)
            dets = [abtem.AnnularDetector(5, 20), abtem.FlexibleAnnularDetector(), abtem.SegmentedDetector(2, 2, 5, 20),
                    abtem.PixelatedDetector(), abtem.WavesDetector()]
            abtem.Probe(energy=100e3, semiangle_cutoff=20, aberrations={"C10": 10, "C12": 5}).scan(
                pot, scan=abtem.GridScan(gpts=2), detectors=dets, lazy=False)
            abtem.PlaneWave(energy=100e3).multislice(pot, lazy=False).diffraction_patterns()
    reset_process_state()


def draw_scenario(ch, pot_kinds=("atoms", "fp", "ensemble", "array", "crystal"), pot_weights=(3, 4, 2, 2, 2)):
    knobs = scene.draw_knobs(ch)
    pot = scene.draw_potential(ch, kinds=pot_kinds, weights=pot_weights)
    builder = scene.draw_builder(ch)
    amax = scene.max_valid_angle(pot, builder["energy"])
    if builder["kind"] == "probe":
        builder["semiangle_cutoff"] = round(min(builder["semiangle_cutoff"], 0.8 * amax), 3)
        scan = scene.draw_scan(ch, scene.potential_extent(pot))
    else:
        scan = {"kind": "none"}
    dets = scene.draw_detectors(ch, amax)
    post = None
    if len(dets) == 1 and dets[0]["kind"] == "waves":
        post = ch.pick([None, "diffraction_patterns", "apply_ctf", "intensity"], "post")
    return {"knobs": knobs, "potential": pot, "builder": builder, "scan": scan, "detectors": dets, "post": post}


def pipeline(sc, lazy, max_batch):
    """fresh objects every time"""
    import abtem

    pot = scene.make_potential(sc["potential"])
    b = scene.make_builder(sc["builder"])
    dets = scene.make_detectors(sc["detectors"])
    if sc["builder"]["kind"] == "probe":
        scan = scene.make_scan(sc["scan"])
        if scan is None:
            out = b.multislice(pot, detectors=dets, max_batch=max_batch, lazy=lazy)
        else:
            out = b.scan(pot, scan=scan, detectors=dets, max_batch=max_batch, lazy=lazy)
    else:
        out = b.multislice(pot, detectors=dets, max_batch=max_batch, lazy=lazy)
    if sc["post"] == "diffraction_patterns":
        out = out.diffraction_patterns(max_angle="valid")
    elif sc["post"] == "apply_ctf":
        out = out.apply_ctf(abtem.CTF(defocus=40.0, semiangle_cutoff=25.0, Cs=1e4))
    elif sc["post"] == "intensity":
        out = out.intensity()
    return out


def signature(sc, aspect, extra=None):
    p = sc["potential"]
    n_cfg = p.get("fp", {}).get("num_configs", 1) if p["kind"] != "crystal" else p.get("num_frozen_phonons", 1) or 1
    s = {"aspect": aspect, "pot": p["kind"], "multi_config": n_cfg > 1,
         "ensemble_mean": (p.get("fp", {}).get("ensemble_mean") if p["kind"] != "crystal" else p.get("crystal_mean")),
         "exit_planes": p["exit_planes"] is not None, "builder": sc["builder"]["kind"],
         "scan": sc["scan"]["kind"] != "none", "dets": "+".join(sorted({d["kind"] for d in sc["detectors"]}))}
    if extra:
        s.update(extra)
    return s


def run_one(run):
    ch = run.ch
    sc = draw_scenario(ch)
    run.scenario = sc
    knobs = sc["knobs"]
    rtol, atol = oracle.tol_for(knobs["precision"])
    wg = scene.wave_gpts(sc["potential"])
    reset_process_state(scene.knob_overrides(knobs, wg))

    ref = ref_exc = None
    try:
        ref = pipeline(sc, lazy=False, max_batch="auto")
    except (HarnessError, InjectedCrash):
        raise
    except Exception as e:  # noqa: BLE001
        ref_exc = e
        run.invalid = True
        run.note("reference_raised")

    subs = []
    for j in range(2):
        mb = knobs["max_batch"] if j == 0 else ch.pick([1, "auto", 2, 4], "max-batch-2")
        if j == 1:
            reset_process_state(scene.knob_overrides({**knobs, "chunk_waves": ch.pick([1, None, 4, 2], "chunk-waves-2")}, wg))
        # a minority of runs are probe runs: tasks are crashed at an arbitrary abTEM line and retried, or re-run on their already
        # consumed inputs (what a distributed scheduler's retry does); findings of such runs are PROBE lines, never verdicts
        cfg = draw_sim_config(ch, probes=ch.bool(0.1, "probe-run"))
        sim = run.add_sim(Sim(ch, cfg))
        sub = sub_exc = None
        try:
            with sim:
                lazy_obj = pipeline(sc, lazy=True, max_batch=mb)
                sub = sim.compute(lazy_obj)
        except (HarnessError, InjectedCrash):
            raise
        except Exception as e:  # noqa: BLE001
            sub_exc = e
        sc.setdefault("sim", []).append(sim.describe())
        if (ref_exc is None) != (sub_exc is None):
            who = "lazy" if sub_exc is not None else "eager"
            e = sub_exc or ref_exc
            run.violate("fail-together", signature(sc, "raise", {"raised": who, "exc": type(e).__name__}),
                        f"{who} raised {type(e).__name__}: {e}; the other mode succeeded (max_batch={mb}) at {tb(e)}")
            continue
        if ref_exc is not None:
            continue
        for aspect, msg in oracle.compare_results(ref, sub, rtol, atol):
            if aspect == "dtype":
                # the statement lists values, shape, type and axes metadata -- not the dtype: counted, not a verdict
                run.note("dtype_differs_lazy_vs_eager")
                continue
            run.violate("lazy-equals-eager", signature(sc, aspect), f"subject {j} (max_batch={mb}, {sim.describe()}): {msg}")
        subs.append(sub)
    # ---- a third subject: this pipeline computed together with a second, different one in ONE dask graph ------------------
    if ref is not None and ch.bool(0.25, "joint-compute"):
        import copy as _copy
        import dask

        sc2 = _copy.deepcopy(sc)
        sc2["potential"]["atoms"]["seed"] = (sc["potential"]["atoms"]["seed"] + 1) % 2**32
        if "fp" in sc2["potential"]:
            sc2["potential"]["fp"]["seed"] = sc2["potential"]["fp"]["seed"] + 17
        try:
            reset_process_state(scene.knob_overrides(knobs, wg))
            ref2 = pipeline(sc2, lazy=False, max_batch="auto")
        except (HarnessError, InjectedCrash):
            raise
        except Exception:  # noqa: BLE001
            ref2 = None
        if ref2 is not None:
            sim3 = run.add_sim(Sim(ch, draw_sim_config(ch)))
            try:
                with sim3:
                    la = pipeline(sc, lazy=True, max_batch=knobs["max_batch"])
                    lb = pipeline(sc2, lazy=True, max_batch=knobs["max_batch"])
                    la, lb = (la if isinstance(la, list) else [la]), (lb if isinstance(lb, list) else [lb])
                    arrays = dask.compute(*[x.array for x in la + lb], optimize_graph=sim3.optimize_graph)
                for x, arr in zip(la + lb, arrays):
                    x._array = arr
                for which, rr, ll in (("first", ref, la), ("second", ref2, lb)):
                    for aspect, msg in oracle.compare_results(rr, ll, rtol, atol):
                        if aspect == "dtype":
                            continue
                        run.violate("lazy-equals-eager", signature(sc, aspect, {"joint": True}), f"joint compute, {which} pipeline: {msg}")
                run.note("reach_joint_compute")
            except (HarnessError, InjectedCrash):
                raise
            except Exception as e:  # noqa: BLE001
                run.violate("fail-together", signature(sc, "raise", {"raised": "lazy", "exc": type(e).__name__, "joint": True}),
                            f"joint compute of two pipelines raised {type(e).__name__}: {e} at {tb(e)}")
    if ref is not None:
        rl = ref if isinstance(ref, list) else [ref]
        run.digest(*[r.array for r in rl])
        if sc["potential"]["kind"] in ("fp", "ensemble") and sc["potential"]["fp"]["num_configs"] > 1:
            run.note("reach_multi_config")
        if sc["potential"]["exit_planes"] is not None:
            run.note("reach_exit_planes")

TECHNIQUE = "deterministic simulation: seeded dask-executor schedules (reorder/interleave/recompute) vs eager reference"
LEVEL_TEXT = ("seeded search over scenes x knobs x simulated dask schedules; every lazy result compared with an eager reference "
              "built from fresh objects; evidence, not proof")
LEVEL_NOTE = ("trusts numpy/dask graph construction; pre-emption only at Python lines inside abtem/*; the space is sampled, not "
              "enumerated")
