"""C01 -- lazy and eager evaluation produce the same simulation results (DESIGN 3, C01)."""
from __future__ import annotations

from simkit import oracle, scene
from simkit.errors import HarnessError, InjectedCrash
from simkit.util import tb
from simkit.sim import Sim, draw_sim_config, park_config, park_profile_config, reset_process_state

PROPERTY = "C01"
LEVEL = "exploration"
BUDGET = {"quick": (640, 150), "thorough": (16000, 1500)}
RULE = ("seeded scene (potential kind x builder x scan x detectors x exit planes x post-processing) with drawn knobs "
        "(precision, fft, dask.chunk-size, max_batch, graph shape); reference = eager call on fresh objects. Three families: "
        "pipeline -- two lazy calls with different knobs computed by SimScheduler (reorder / interleave / release / recompute-lineage), "
        "sometimes jointly with a second pipeline in one graph; race -- a scanned probe in small batches (blocks share detectors, a "
        "CrystalPotential's unit and module state; often >= 2 annular detectors) under three finely interleaved 2-4 worker schedules, "
        "pre-emption at random lines or directed at stores into shared state; diamond -- 2-4 results (CTFs with different defocus, annular "
        "detectors, intensity, diffraction patterns, the waves themselves) derived from ONE lazy exit-wave object (lazy multislice graph or an "
        "in-memory array wrapped lazily) computed in one graph, optionally a second time, each compared with its eager counterpart. "
        "distinct = (scenario hash, schedule hash); non-trivial = the schedule had >=1 real choice (>=2 ready tasks, "
        "a thread switch or a recompute) and the reference did not raise")
ASSUMPTIONS = ["dask may run tasks in any dependency-respecting order, concurrently, and may recompute a lineage from roots",
               "pre-emption is modelled at Python-line granularity inside abtem/*; native kernels are atomic",
               "tolerance rtol 1e-7 (float64) / 2e-4 (float32) on values; structure compared exactly"]


def warmup():
    import abtem
    import ase
    for prec in ("float32", "float64"):
        reset_process_state({"precision": prec, "fft": "numpy"})
        atoms = ase.Atoms("SiC", positions=[(0, 0, 1), (2, 2, 3)], cell=[4, 4, 4], pbc=True)
        for proj in ("infinite",):
            pot = abtem.Potential(atoms, gpts=12, slice_thickness=2, projection=proj)
            dets = [abtem.AnnularDetector(5, 20), abtem.FlexibleAnnularDetector(), abtem.SegmentedDetector(2, 2, 5, 20),
                    abtem.PixelatedDetector(), abtem.WavesDetector()]
            abtem.Probe(energy=100e3, semiangle_cutoff=20, aberrations={"C10": 10, "C12": 5}).scan(
                pot, scan=abtem.GridScan(gpts=2), detectors=dets, lazy=False)
            abtem.PlaneWave(energy=100e3).multislice(pot, lazy=False).diffraction_patterns()
    reset_process_state()


def draw_scenario(ch, pot_kinds=("atoms", "fp", "ensemble", "array", "crystal"), pot_weights=(3, 4, 2, 2, 2)):
    knobs = scene.draw_knobs(ch)
    pot = scene.draw_potential(ch, kinds=pot_kinds, weights=pot_weights)
    builder = scene.draw_builder(ch)
    amax = scene.max_valid_angle(pot, builder["energy"])
    if builder["kind"] == "probe":
        builder["semiangle_cutoff"] = round(min(builder["semiangle_cutoff"], 0.8 * amax), 3)
        scan = scene.draw_scan(ch, scene.potential_extent(pot))
    else:
        scan = {"kind": "none"}
    dets = scene.draw_detectors(ch, amax)
    post = None
    if len(dets) == 1 and dets[0]["kind"] == "waves":
        post = ch.pick([None, "diffraction_patterns", "apply_ctf", "intensity"], "post")
    return {"knobs": knobs, "potential": pot, "builder": builder, "scan": scan, "detectors": dets, "post": post}


def pipeline(sc, lazy, max_batch):
    """fresh objects every time"""
    import abtem

    pot = scene.make_potential(sc["potential"])
    b = scene.make_builder(sc["builder"])
    dets = scene.make_detectors(sc["detectors"])
    if sc["builder"]["kind"] == "probe":
        scan = scene.make_scan(sc["scan"])
        if scan is None:
            out = b.multislice(pot, detectors=dets, max_batch=max_batch, lazy=lazy)
        else:
            out = b.scan(pot, scan=scan, detectors=dets, max_batch=max_batch, lazy=lazy)
    else:
        out = b.multislice(pot, detectors=dets, max_batch=max_batch, lazy=lazy)
    if sc["post"] == "diffraction_patterns":
        out = out.diffraction_patterns(max_angle="valid")
    elif sc["post"] == "apply_ctf":
        out = out.apply_ctf(abtem.CTF(defocus=40.0, semiangle_cutoff=25.0, Cs=1e4))
    elif sc["post"] == "intensity":
        out = out.intensity()
    return out


def draw_race_scenario(ch):
    """scenes whose lazy graph has several multislice blocks that share objects (detectors, a CrystalPotential's unit and its
    integrator, module-level state): scanned probe, small batches, often >= 2 annular detectors with different limits"""
    knobs = scene.draw_knobs(ch)
    knobs["max_batch"] = ch.pick([1, 2], "race-max-batch")
    knobs["chunk_waves"] = ch.pick([1, 2], "race-chunk-waves")
    pot = scene.draw_potential(ch, kinds=("crystal", "atoms", "fp", "array"), weights=(5, 2, 1, 1), exit_p=0.15, max_configs=2,
                               crystal_fp_p=0.25)
    builder = scene.draw_builder(ch, kinds=("probe",))
    amax = scene.max_valid_angle(pot, builder["energy"])
    builder["semiangle_cutoff"] = round(min(builder["semiangle_cutoff"], 0.8 * amax), 3)
    scan = scene.draw_scan(ch, scene.potential_extent(pot), kinds=("custom", "line", "grid"))
    if scene.scan_size(scan) < 3:
        scan = {"kind": "custom", "n": ch.range(3, 6, "race-n-pos"), "seed": ch.subseed("race-pos-seed"), "extent": scene.potential_extent(pot)}
    if ch.bool(0.6, "two-annular"):
        dets = []
        for i in range(ch.range(2, 3, "n-annular")):
            inner = round((0.0 if i == 0 else ch.float(0.1, 0.5, "det-in", 8)) * amax, 3)
            dets.append({"kind": "annular", "inner": inner, "outer": round(inner + ch.float(0.2, 0.5, "det-w", 6) * amax, 3)})
        if ch.bool(0.3, "extra-det"):
            dets += scene.draw_detectors(ch, amax, max_n=1)
    else:
        dets = scene.draw_detectors(ch, amax)
    return {"knobs": knobs, "potential": pot, "builder": builder, "scan": scan, "detectors": dets, "post": None}


# ---- diamond family: several results derived from ONE lazy exit-wave object, computed in one graph --------------------------------
def draw_consumer(ch, amax):
    k = ch.pick(["ctf", "annular", "intensity", "dp", "raw"], "consumer", weights=[3, 2, 1, 1, 1])
    c = {"kind": k}
    if k == "ctf":
        c.update(defocus=ch.pick([40.0, -80.0, 200.0, 0.0, 15.0], "defocus"), Cs=ch.pick([0.0, 1e4], "Cs"),
                 then=ch.pick([None, "intensity", "dp"], "then"))
    elif k == "annular":
        inner = round(ch.float(0.0, 0.4, "det-in", 8) * amax, 3)
        c.update(inner=inner, outer=round(inner + ch.float(0.2, 0.5, "det-w", 6) * amax, 3))
    return c


def apply_consumer(w, c, amax):
    import abtem

    k = c["kind"]
    if k == "raw":
        return w
    if k == "intensity":
        return w.intensity()
    if k == "dp":
        return w.diffraction_patterns(max_angle=None)
    if k == "annular":
        return abtem.AnnularDetector(inner=c["inner"], outer=c["outer"]).detect(w)
    out = w.apply_ctf(abtem.CTF(defocus=c["defocus"], Cs=c["Cs"], semiangle_cutoff=round(min(25.0, 0.8 * amax), 3)))
    if c["then"] == "intensity":
        out = out.intensity()
    elif c["then"] == "dp":
        out = out.diffraction_patterns(max_angle=None)
    return out


def draw_diamond_scenario(ch):
    knobs = scene.draw_knobs(ch)
    pot = scene.draw_potential(ch, kinds=("atoms", "fp", "array", "crystal"), weights=(3, 2, 1, 1), exit_p=0.15, max_configs=3)
    builder = scene.draw_builder(ch)
    amax = scene.max_valid_angle(pot, builder["energy"])
    if builder["kind"] == "probe":
        builder["semiangle_cutoff"] = round(min(builder["semiangle_cutoff"], 0.8 * amax), 3)
        scan = scene.draw_scan(ch, scene.potential_extent(pot), kinds=("none", "custom", "grid"))
    else:
        scan = {"kind": "none"}
    return {"family": "diamond", "knobs": knobs, "potential": pot, "builder": builder, "scan": scan, "detectors": [{"kind": "waves"}],
            "post": None, "amax": amax,
            # where the shared lazy waves come from: the lazy multislice graph, or an in-memory array wrapped lazily (its dask
            # blocks are then views of the caller's array)
            "source": ch.pick(["graph", "memory", "memory-chunked"], "source", weights=[3, 2, 1]),
            "consumers": [draw_consumer(ch, amax) for _ in range(ch.range(2, 4, "n-consumers"))],
            "twice": ch.bool(0.5, "compute-twice")}


def run_diamond(run):
    import dask
    import numpy as np

    ch = run.ch
    sc = draw_diamond_scenario(ch)
    run.scenario = sc
    knobs = sc["knobs"]
    rtol, atol = oracle.tol_for(knobs["precision"])
    wg = scene.wave_gpts(sc["potential"])
    reset_process_state(scene.knob_overrides(knobs, wg))
    amax = sc["amax"]
    try:
        w_ref = pipeline(sc, lazy=False, max_batch="auto")
        refs = [apply_consumer(w_ref.copy(), c, amax) for c in sc["consumers"]]
    except (HarnessError, InjectedCrash):
        raise
    except Exception as e:  # noqa: BLE001
        run.invalid = True
        run.note("reference_raised")
        sc["reference_error"] = f"{type(e).__name__}: {e} at {tb(e)}"[:300]
        return
    sim = run.add_sim(Sim(ch, draw_sim_config(ch)))
    sim2 = run.add_sim(Sim(ch, draw_sim_config(ch))) if sc["twice"] else None
    src0 = src = None
    try:
        with sim:
            if sc["source"] == "graph":
                w = pipeline(sc, lazy=True, max_batch=knobs["max_batch"])
            else:
                src = pipeline(sc, lazy=False, max_batch="auto")
                src0 = np.array(src.array, copy=True)
                n_ens = len(src.array.shape) - 2
                if sc["source"] == "memory-chunked" and n_ens:
                    w = src.ensure_lazy(chunks=(1,) * n_ens + (-1, -1))
                else:
                    w = src.ensure_lazy()
            outs = [apply_consumer(w, c, amax) for c in sc["consumers"]]
            first = dask.compute(*[o.array for o in outs], optimize_graph=sim.optimize_graph)
        second = None
        if sim2 is not None:
            # the same lazy objects computed a second time (what `.compute()` on a copy, or a later `to_zarr`, does)
            with sim2:
                second = dask.compute(*[o.array for o in outs], optimize_graph=sim2.optimize_graph)
    except (HarnessError, InjectedCrash):
        raise
    except Exception as e:  # noqa: BLE001
        run.violate("fail-together", signature(sc, "raise", {"raised": "lazy", "exc": type(e).__name__, "family": "diamond"}),
                    f"lazy evaluation of {len(sc['consumers'])} results derived from one lazy exit-wave object raised {type(e).__name__}: {e} "
                    f"at {tb(e)}; the eager evaluation succeeded")
        return
    sc["sim"] = [sim.describe()] + ([sim2.describe()] if sim2 is not None else [])
    for which, arrays in (("first", first), ("second", second)):
        if arrays is None:
            continue
        for i, (c, r, o, a) in enumerate(zip(sc["consumers"], refs, outs, arrays)):
            lz = o.copy()
            lz._array = a
            for aspect, msg in oracle.compare_results(r, lz, rtol, atol):
                if aspect == "dtype":
                    run.note("dtype_differs_lazy_vs_eager")
                    continue
                run.violate("lazy-equals-eager", signature(sc, aspect, {"family": "diamond", "consumer": c["kind"], "source": sc["source"],
                                                                         "compute": which}),
                            f"result {i} ({c}) of {len(outs)} derived from the same lazy waves (source {sc['source']}), {which} computation: {msg}")
                break
    if src is not None and not np.array_equal(np.asarray(src.array), src0, equal_nan=True):
        run.note("reach_lazy_compute_modified_source_array")
        run.violate("lazy-equals-eager", signature(sc, "source-modified", {"family": "diamond", "source": sc["source"]}),
                    "computing lazy results derived from in-memory waves changed the values of those waves (the eager evaluation leaves them "
                    f"unchanged): max|diff|={float(np.max(np.abs(np.asarray(src.array) - src0))):.3g}")
    run.digest(*[r.array for r in refs])
    kinds = [c["kind"] for c in sc["consumers"]]
    if kinds.count("ctf") >= 2 or kinds.count("annular") >= 2:
        run.note("reach_same_kind_consumers")
    if second is not None:
        run.note("reach_second_compute")


def signature(sc, aspect, extra=None):
    p = sc["potential"]
    n_cfg = p.get("fp", {}).get("num_configs", 1) if p["kind"] != "crystal" else p.get("num_frozen_phonons", 1) or 1
    s = {"aspect": aspect, "pot": p["kind"], "multi_config": n_cfg > 1,
         "ensemble_mean": (p.get("fp", {}).get("ensemble_mean") if p["kind"] != "crystal" else p.get("crystal_mean")),
         "exit_planes": p["exit_planes"] is not None, "builder": sc["builder"]["kind"],
         "scan": sc["scan"]["kind"] != "none", "dets": "+".join(sorted({d["kind"] for d in sc["detectors"]}))}
    if extra:
        s.update(extra)
    return s


def run_one(run):
    ch = run.ch
    fam = ch.pick(["pipeline", "race", "diamond"], "family", weights=[5, 3, 2])
    run.note("family_" + fam)
    if fam == "diamond":
        return run_diamond(run)
    sc = draw_scenario(ch) if fam == "pipeline" else draw_race_scenario(ch)
    sc["family"] = fam
    run.scenario = sc
    run_pipeline(run, sc, race=fam == "race")


def run_pipeline(run, sc, race):
    ch = run.ch
    knobs = sc["knobs"]
    rtol, atol = oracle.tol_for(knobs["precision"])
    wg = scene.wave_gpts(sc["potential"])
    reset_process_state(scene.knob_overrides(knobs, wg))

    def lazy_subject(j, mb, cfg):
        sim = run.add_sim(Sim(ch, cfg))
        sub = sub_exc = None
        try:
            with sim:
                lazy_obj = pipeline(sc, lazy=True, max_batch=mb)
                sub = sim.compute(lazy_obj)
        except (HarnessError, InjectedCrash):
            raise
        except Exception as e:  # noqa: BLE001
            sub_exc = e
        sc.setdefault("sim", []).append(sim.describe())
        return sim, sub, sub_exc

    # race family, half of the runs: the lazy computation is the FIRST thing the process does with this scene, so that
    # module-level state (memos, plans) is cold when the blocks run concurrently; the eager reference comes afterwards
    early = None
    if race and ch.bool(0.5, "lazy-first"):
        sc["lazy_first"] = True
        early = lazy_subject(0, knobs["max_batch"], draw_sim_config(ch, force_threads=True, allow_recompute=False, write_preempt="park"))

    ref = ref_exc = None
    try:
        ref = pipeline(sc, lazy=False, max_batch="auto")
    except (HarnessError, InjectedCrash):
        raise
    except Exception as e:  # noqa: BLE001
        ref_exc = e
        run.invalid = True
        run.note("reference_raised")

    subs = []
    candidates = 0
    for j in range(4 if race else 2):
        if race:
            # shared-state hunting: the same many-block graph under three multi-worker schedules: (0) a profiling schedule that
            # counts the stores into objects shared by >= 2 tasks, (1, 3) one task delayed at one of those stores until all others
            # have run, (2) pre-emption at stores / random lines with heavy-tailed budgets
            mb = knobs["max_batch"]
            if j == 0:
                cfg = park_profile_config(ch)
            elif j in (1, 3):
                if j == 3 and not candidates:
                    break
                cfg = park_config(ch, candidates) if candidates else draw_sim_config(ch, force_threads=True, allow_recompute=False, write_preempt="park")
            else:
                cfg = draw_sim_config(ch, force_threads=True, allow_recompute=False, write_preempt=True)
        else:
            mb = knobs["max_batch"] if j == 0 else ch.pick([1, "auto", 2, 4], "max-batch-2")
            if j == 1:
                reset_process_state(scene.knob_overrides({**knobs, "chunk_waves": ch.pick([1, None, 4, 2], "chunk-waves-2")}, wg))
            # a minority of runs are probe runs: tasks are crashed at an arbitrary abTEM line and retried, or re-run on their already
            # consumed inputs (what a distributed scheduler's retry does); findings of such runs are PROBE lines, never verdicts
            cfg = draw_sim_config(ch, probes=ch.bool(0.1, "probe-run"))
        if j == 2 and early is not None:
            sim, sub, sub_exc = early
        else:
            sim, sub, sub_exc = lazy_subject(j, mb, cfg)
        if race and j == 0:
            candidates = sim.sched.stats.park_candidates
            run.note("park_candidates", candidates)
        if (ref_exc is None) != (sub_exc is None):
            who = "lazy" if sub_exc is not None else "eager"
            e = sub_exc or ref_exc
            run.violate("fail-together", signature(sc, "raise", {"raised": who, "exc": type(e).__name__}),
                        f"{who} raised {type(e).__name__}: {e}; the other mode succeeded (max_batch={mb}) at {tb(e)}")
            continue
        if ref_exc is not None:
            continue
        for aspect, msg in oracle.compare_results(ref, sub, rtol, atol):
            if aspect == "dtype":
                # the statement lists values, shape, type and axes metadata -- not the dtype: counted, not a verdict
                run.note("dtype_differs_lazy_vs_eager")
                continue
            run.violate("lazy-equals-eager", signature(sc, aspect), f"subject {j} (max_batch={mb}, {sim.describe()}): {msg}")
        subs.append(sub)
    # ---- a third subject: this pipeline computed together with a second, different one in ONE dask graph ------------------
    if ref is not None and not race and ch.bool(0.25, "joint-compute"):
        import copy as _copy
        import dask

        sc2 = _copy.deepcopy(sc)
        sc2["potential"]["atoms"]["seed"] = (sc["potential"]["atoms"]["seed"] + 1) % 2**32
        if "fp" in sc2["potential"]:
            sc2["potential"]["fp"]["seed"] = sc2["potential"]["fp"]["seed"] + 17
        try:
            reset_process_state(scene.knob_overrides(knobs, wg))
            ref2 = pipeline(sc2, lazy=False, max_batch="auto")
        except (HarnessError, InjectedCrash):
            raise
        except Exception:  # noqa: BLE001
            ref2 = None
        if ref2 is not None:
            sim3 = run.add_sim(Sim(ch, draw_sim_config(ch)))
            try:
                with sim3:
                    la = pipeline(sc, lazy=True, max_batch=knobs["max_batch"])
                    lb = pipeline(sc2, lazy=True, max_batch=knobs["max_batch"])
                    la, lb = (la if isinstance(la, list) else [la]), (lb if isinstance(lb, list) else [lb])
                    arrays = dask.compute(*[x.array for x in la + lb], optimize_graph=sim3.optimize_graph)
                for x, arr in zip(la + lb, arrays):
                    x._array = arr
                for which, rr, ll in (("first", ref, la), ("second", ref2, lb)):
                    for aspect, msg in oracle.compare_results(rr, ll, rtol, atol):
                        if aspect == "dtype":
                            continue
                        run.violate("lazy-equals-eager", signature(sc, aspect, {"joint": True}), f"joint compute, {which} pipeline: {msg}")
                run.note("reach_joint_compute")
            except (HarnessError, InjectedCrash):
                raise
            except Exception as e:  # noqa: BLE001
                run.violate("fail-together", signature(sc, "raise", {"raised": "lazy", "exc": type(e).__name__, "joint": True}),
                            f"joint compute of two pipelines raised {type(e).__name__}: {e} at {tb(e)}")
    if ref is not None:
        rl = ref if isinstance(ref, list) else [ref]
        run.digest(*[r.array for r in rl])
        if sc["potential"]["kind"] in ("fp", "ensemble") and sc["potential"]["fp"]["num_configs"] > 1:
            run.note("reach_multi_config")
        if sc["potential"]["exit_planes"] is not None:
            run.note("reach_exit_planes")

TECHNIQUE = "deterministic simulation: seeded dask-executor schedules (reorder/interleave/recompute) vs eager reference"
LEVEL_TEXT = ("seeded search over scenes x knobs x simulated dask schedules; every lazy result compared with an eager reference "
              "built from fresh objects; evidence, not proof")
LEVEL_NOTE = ("trusts numpy/dask graph construction; pre-emption only at Python lines inside abtem/*; the space is sampled, not "
              "enumerated")
